#!/usr/bin/env python3
"""Helper: build a 'prog' replay file from inline sources.
usage: mkwitness.py out.json PROPERTY "summary" prefixes(comma) pkgs(comma)  then sources from a python literal on stdin:
 {"sources": {...}, "expect": {"a/f0.go": {"<marker>": "CODE"}}, "config": {...}}
Lines containing '//!CODE' markers are expected to carry CODE (marker text is removed)."""
import json, re, sys
out, prop, summary, prefixes, pkgs = sys.argv[1:6]
spec = json.load(sys.stdin)
must = []
sources = {}
for path, text in spec["sources"].items():
    lines = text.split("\n")
    for i, l in enumerate(lines):
        m = re.search(r"\s*//!([A-Z0-9,]+)\s*$", l)
        if m:
            for c in m.group(1).split(","):
                must.append("%s:%d:%s" % (path, i + 1, c))
            lines[i] = l[:m.start()]
    sources[path] = "\n".join(lines)
cfg = spec.get("config", {"ScanTests": False, "ExcludePaths": ["testdata"], "ExcludeChecks": None})
env = dict(property=prop, kind="prog", summary=summary,
           data=dict(pkgs=pkgs.split(","), sources=sources, config=cfg, prefixes=prefixes.split(","), must=sorted(must), may=[]))
json.dump(env, open(out, "w"), indent=1)
print("wrote", out, must)
