#!/usr/bin/env python3
"""Regenerates MANIFEST.json from the table below (kept next to ./check's PROPS)."""
import json, os
V = os.path.dirname(os.path.abspath(__file__))
CLAIMED = {
 "C16": dict(technique="exhaustive small-scope enumeration of add/query histories + rapid state machine, both against an order-free list-scan reference model",
   text="Every history of up to 3 (quick) / 4 (thorough) add-operations over the 96-operation alphabet named in the property is enumerated with all 56 queries after each prefix and compared with a reference model that is a plain list scan; a rapid state machine adds long histories, wide/inverted ranges, multi-code markers, nil receivers. Exhaustive within the bound, sampled beyond it.",
   note="trusts the harness's restated code table (5 categories, 16 codes) and the list-scan model; range starts are valid token.Pos (>=1)", ref="DESIGN.md section 3, C16"),
}
CLAIMED["C19"] = dict(technique="exhaustive (line length x column) enumeration + rapid lines with tabs/multi-byte runes, judged by a validity predicate over the rendered message",
   text="All line lengths 0..3x the display limit x all columns 1..len+1 are rendered through the public Reporter with a hand-made analysis.Pass (real token.File line table, ReadFile closure) and judged by a validity predicate: shown line is a window of the right source line, ellipses exactly on cut sides, length <= limit+markers (in characters), caret cell = cell of the reported byte with tabs mirrored, context lines are the neighbours; rapid adds tabs, multi-byte runes, 100 kB lines, unreadable and short files.",
   note="cells = runes, no double-width runes; column len+1 only judged for boundedness; position-encoded content makes the shown window locatable", ref="DESIGN.md section 3, C19")

_exact_note = "oracle is the model's reading of the property statement; shapes the statement leaves open are tolerated (counted as 'open'), never required; in-process driver = real x/tools checker.Analyze + real analyzers, package loading by the harness (every 60th program also through the standalone binary)"
for _pid, _what in [("C01", "@immutable: IMM01-04 incl. receiver overwrite/incdec; negatives @mutable, constructors, reads, unannotated twins"),
                    ("C02", "@constructor: CTOR01-03 over literal / elided / new / var shapes, package-level and in-function, constructor-name decoys"),
                    ("C03", "@testonly: TONL01 once per file and type, TONL02/03 per call; test files and @testonly declarations exempt; name decoys"),
                    ("C04", "@packageonly: union of allow lists by path or name; PKGO01 once per file and type, PKGO02/03 per reference")]:
    CLAIMED[_pid] = dict(technique="rapid-generated multi-package programs from a program model; expected diagnostics computed from the model (not from the analyzer), compared as exact (site, code) sets",
        text="Programs are constructed (never filtered) from a model of packages, types, annotations, functions, methods, package-level initialisers and one-site-per-line statements under random nesting, file placement and declaration order; the real analyzers run on them and the diagnostics of this category must equal the model's expectation in both directions. " + _what + ".",
        note=_exact_note, ref="DESIGN.md section 3, " + _pid)

_meta_note = "baseline is the real tool's own output on the base program, so the relation stays meaningful independently of the exactness checks; identity of statements is carried by trailing tag comments"
CLAIMED["C12"] = dict(technique="metamorphic testing over rapid-generated programs: semantics-preserving layout transformations must leave the (site, code) verdict set unchanged",
    text="Generated multi-package programs with all annotation kinds are transformed by chains of 1-3 layout changes (permute declarations, move a declaration to another file, insert blank lines/comments, go/format, consistent renaming of parameters/receivers/locals incl. un-shadowing) and re-analysed; the set of (tagged statement, code) pairs - for TONL01/PKGO01 (using package, type) - must be identical.",
    note=_meta_note, ref="DESIGN.md section 3, C12")

CLAIMED["C13"] = dict(technique="metamorphic testing over rapid-generated programs: rewriting use-site type expressions into identical types (aliases, parentheses, renamed imports) must leave the (site, code) verdict set unchanged",
    text="A random subset of the type mentions of a generated program is respelled through an alias declared in the using package, an alias declared in a new third package (the user keeps a direct import of the declaring package), added parentheses, or renamed imports; the (tagged statement, code) set must equal the base program's.",
    note=_meta_note + "; value<->pointer respelling is not exercised", ref="DESIGN.md section 3, C13")

CLAIMED["C07"] = dict(technique="metamorphic testing over rapid-generated programs: inserting one @ignore comment must remove exactly the diagnostics in its model-computed scope that match its codes",
    text="One @ignore comment is inserted into a generated program at a model-level position (before the package clause, alone before a declaration or statement, trailing the first or last line of a node), on a node containing a chosen diagnostic, a sibling, or anywhere, with a code list from 12 classes; expected result = baseline minus {in scope and matched under ALL>category>code}, with the once-per-file reports moving to the next unsuppressed use known from the model; compared in both directions.",
    note=_meta_note + "; scope is computed from the model's node line ranges, never from gogreement's AST walk; not placed: comments inside type bodies / composite literals, last-in-block comments, block comments", ref="DESIGN.md section 3, C07")

CLAIMED["C08"] = dict(technique="differential testing against the unrestricted run with a reference matcher: exhaustive singletons/pairs of the token alphabet + rapid subsets in random spelling, through the repository's flag parser in-process and through the real binary (flag and env)",
    text="For a fixed probe module producing all 16 codes and for rapid-generated programs, the diagnostics under exclude-checks=S must equal the diagnostics of the unrestricted run filtered by a restated ALL>category>code matcher; every single token and ordered pair of the 30-token alphabet is enumerated, random subsets add case, spacing and empty items; a sample goes through the real binary with --config.exclude-checks and GOGREEMENT_EXCLUDE_CHECKS.",
    note="reference matcher and list parser are restated in the harness (6 + 10 lines); in-process runs use config.CreateFlagSet/ParseFlagsFromFlagSet from the repository to turn the raw string into a Config", ref="DESIGN.md section 3, C08")

CLAIMED["C18"] = dict(technique="rapid-generated configurations (flag x environment grid with boolean/list spellings and generated environment strings) run through the real binary in fresh processes on a probe module; expected reports from a restated resolution + parsing + skip + matching reference",
    text="Each case draws, per option, flag absent/empty/value (bool: absent/bare/=spelling) and env unset/empty/value/generated string, runs the real gogreement binary (a sample through go vet -vettool) in a fresh process on a probe module with planted violations in a test file, a testdata directory, a gen_ file, a vendorx directory and one per code, and compares the reported planted-violation ids with those implied by the reference resolution flag > env-if-set > default; exit status must be 0 for every environment value.",
    note="reference resolution/parsing (about 40 lines) restated from the documentation; GOGREEMENT_ENV_ONLY is never set; flag values are limited to spellings Go's flag package accepts", ref="DESIGN.md section 3, C18")

CLAIMED["C14"] = dict(technique="rapid-generated programs x configurations (scan-tests, exclude-paths tokens drawn from the program's own file and directory names): location predicate, comment-stripping metamorphic relation, and model exactness under the configuration",
    text="For generated programs with regular and test files and random scan-tests / exclude-paths settings: no diagnostic may lie in a file the reference skip predicate excludes (never TONL in a test file); stripping every comment from the excluded files must leave all other files' diagnostics unchanged; and the IMM/CTOR/TONL/PKGO diagnostics must equal the model expectation in which excluded files contribute neither annotations nor sites.",
    note="reference skip predicate restated (suffix _test.go unless scan-tests; absolute file name contains a token); external test packages and excluded directories are covered by C18's probe, not generated here", ref="DESIGN.md section 3, C14")

CLAIMED["C06"] = dict(technique="differential testing across the three real drivers and across root sets, metamorphic locality relation, and gob round trip of rapid-generated fact values",
    text="Generated multi-package programs (with long and unusual annotation values) are analysed in-process sequentially, in-process in parallel with the driver's fact SanityCheck, by the standalone binary and by go vet -vettool with facts on disk - all four diagnostic sets must be equal; every package analysed alone must get the diagnostics it gets in the full run; editing annotations of a package that p does not directly import must not change p's diagnostics; rapid-generated PackageAnnotations values must survive gob through all six fact types.",
    note="external drivers are budgeted (quick: 24 programs, thorough: 3000); in-process relations run on every program; vet and binary are compared on the packages both analyse (sets normalised per file)", ref="DESIGN.md section 3, C06")

CLAIMED["C11"] = dict(technique="differential testing of the real binary across sampled schedules (byte comparison of per-package JSON, report order included) on rapid-generated 4-8 package programs, plus a -race build of the driver and in-process parallel-vs-sequential comparison",
    text="Each generated program is analysed by the standalone binary under 8 schedules (repeat, -debug=p, GOMAXPROCS 1/2/16, permuted package arguments, subset of roots); the per-package JSON must be byte-identical to the default run. A share of the programs also runs under a race-instrumented build (DATA RACE = violation) and every program is analysed in-process in parallel twice and compared with the sequential result.",
    note="schedules are sampled, not enumerated: an interleaving-specific logic bug without a data race and without an effect under the sampled schedules can escape (stated in DESIGN.md section 6)", ref="DESIGN.md section 3, C11")

CLAIMED["C09"] = dict(technique="zero-diagnostic oracle over (a) real-world corpora after an independent precondition filter, through the real binary, and (b) rapid-generated annotation-free programs salted with near-miss comments",
    text="Packages of the standard library (thorough: all of std and the repository's dependencies from the module cache) that an independent go/parser scan finds free of annotation-like comment lines are analysed by the real binary under default, scan-tests and empty exclude-paths configurations; generated programs containing every site family but no annotation are salted with malformed keyword comments and with well-formed annotation lines at inert attachment sites. Any diagnostic is a violation.",
    note="corpus = what loads offline here (go1.23.5 std via the repository's toolchain switch, module cache); packages with load errors are counted and not judged", ref="DESIGN.md section 3, C09")

CLAIMED["C10"] = dict(technique="robustness fuzzing with a crash oracle: rapid-generated annotated programs plus hand-written shape 'zoo' files, a skeleton whose comment slots carry rapid-generated annotation-fragment text, and standard-library packages with annotations injected through a go/packages overlay; in-process with recovered panics, through the binary and through go vet",
    text="Every analyzer Run is wrapped so that a panic is recovered, attributed and shrunk; the binary's and vet's stderr are scanned for panic / internal error / fatal error and the -json exit status must be 0. Inputs: generated multi-package programs with all annotation kinds extended by zoo files (generics, package-level initialisers of every shape, anonymous structs, embedded fields, type switches, labels, channels, method values, empty and comment-only files, 128 kB lines), a two-package skeleton with 45 comment slots filled from an annotation-fragment alphabet, and std packages with @-annotations injected on 35% of their top-level declarations and fields.",
    note="hang clause: a run slower than 60 s (in-process) / 120 s (external) is reported as inconclusive (exit 2), never as a violation; comment text that makes the skeleton uncompilable is dropped and counted; native go test -fuzz is not used (see DESIGN.md section 6)", ref="DESIGN.md section 3, C10")

CLAIMED["C05"] = dict(technique="differential testing against go/types: rapid-generated interface / implementation programs from a signature grammar; expected IMPL01/02/03 and the list of missing methods computed with the type checker's own method sets and types.Identical",
    text="Three-package programs (interface package with a possibly different declared name, imported plainly or under an alias; helper types and aliases; implementing package) are generated from a grammar of 29 parameter/result types incl. predeclared and declared aliases, pointer depths 1-3, composites, funcs, chans and variadics; each interface method is absent, identical in another spelling, minimally different, or promoted through embedded E / *E / interface, with value or pointer receivers and every qualifier / interface-name shape. The tool's verdict and its 'missing methods' list must equal what go/types says for the same program.",
    note="oracle = the harness's own go/types pass over the generated program (method sets, types.Identical, cross-checked with types.Implements); unspecified shapes (qualifier equal to the declared name or last path element of an import bound under another name) are counted, not judged; generic and annotated interface types, unexported interface methods are not generated", ref="DESIGN.md section 3, C05")

CLAIMED["C15"] = dict(technique="exhaustive bounded enumeration of comment strings + rapid structured/unstructured strings against a hand-written reference recogniser of the documented grammar, plus rapid attachment-site programs; observed through the public readers on really parsed files",
    text="Every comment text '//' + up to 4 (quick) / 6 (thorough) tokens of a 25-token alphabet is parsed by go/parser as doc comment of a type, a function, a method and a field of an @immutable struct and read by annotations.ReadAllAnnotations and ignore.ReadIgnoreAnnotations; kind, &, qualifier, name, item lists (declaring package first, codes upper-cased) must equal the result of a recursive-descent reference recogniser. Rapid adds longer structured and unstructured strings, and programs in which well-formed annotations sit at every inert attachment site.",
    note="the reference recogniser encodes the documented grammar with longest-list-then-whitespace semantics; strings the statement leaves open (non-ASCII identifiers, digit-leading names, malformed first word after @packageonly, form feed / vertical tab / NBSP as whitespace, group doc comments) are counted and not judged", ref="DESIGN.md section 3, C15")

CLAIMED["C17"] = dict(technique="per-diagnostic validity predicates over rapid-generated programs and a 16-code probe (restated code / analyzer / help-link tables, C19's excerpt predicate on the real files) plus a metamorphic append-and-rerun step with the displayed code; text-mode exit status through the real binary",
    text="Every diagnostic the real binary emits on the probe and on generated programs is checked for: one distinct documented code in [CODE] form, the analyzer of its category, a position inside a non-excluded file of the analysed package, the category's help link and a valid excerpt; for sampled diagnostics '// @ignore <displayed code>' is appended to their line and the re-analysis must lose exactly that line's diagnostics of that code (once-per-file codes may re-appear later in the file for the same type); in text mode exit status != 0 iff a diagnostic line is printed.",
    note="tag comments are stripped before this check so that a comment can be appended; a repeated identical prefix such as '[CTOR01] [CTOR01]' counts as one distinct code; annotated real-world corpora are covered for crashes by C10, not re-checked here", ref="DESIGN.md section 3, C17")
ALL = ["C%02d" % i for i in range(1, 20)]
NA_REASON = {}
def main():
    checks = []
    for pid in ALL:
        if pid not in CLAIMED: continue
        c = CLAIMED[pid]
        checks.append(dict(property_id=pid, quick_cmd="./check %s --tier quick" % pid, thorough_cmd="./check %s --tier thorough" % pid,
            evidence_file="/verif/evidence/%s.json" % pid, replay_cmd_template="./check %s --replay {path}" % pid,
            engine="harness", level_claimed=dict(category="exploration", text=c["text"], design_ref=c["ref"]),
            level_note=c["note"], technique=c["technique"]))
    na = [dict(property_id=p, reason=NA_REASON.get(p, "check not built yet in this round (planned in DESIGN.md section 3); not claimed until its check exists and is silent on the unchanged tree")) for p in ALL if p not in CLAIMED]
    m = dict(version=1, setup_cmd="./setup.sh",
        hooks=dict(guard="verif", enable="no source hooks exist: checks build /repo as is (go build / go test -c with a replace directive to /repo)",
                   baseline_off_cmd="cd /repo && GOFLAGS=-mod=mod GOPROXY=off GOTOOLCHAIN=auto go test -json -vet=off -count=1 -timeout 25m ./...",
                   source_commits=[], add_only=True),
        engines=[dict(name="harness", path="/verif/harness", serves_properties=sorted(CLAIMED), kind_free_text="Go module: rapid property tests + exhaustive enumerations + native fuzz targets driving the real analyzers in-process (x/tools checker.Analyze), through the standalone binary and through go vet -vettool; driver script /verif/check shards, merges evidence, saves replays")],
        checks=checks, not_applicable=na,
        notes="Technique: property-based testing and fuzzing. Exit 0 held / 1 violation (VIOLATION line) / 2 infrastructure or inconclusive. known_findings.json lists recorded and fixed defects.")
    json.dump(m, open(os.path.join(V, "MANIFEST.json"), "w"), indent=1)
main()
