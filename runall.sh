#!/bin/bash
# usage: runall.sh [quick|thorough] [seed]   - runs every claimed check on /repo's working tree, one line per property
tier=${1:-quick}; seed=${2:-1}
rc=0
for id in C01 C02 C03 C04 C05 C06 C07 C08 C09 C10 C11 C12 C13 C14 C15 C16 C17 C18 C19; do
  out=$(VERIF_SEED=$seed /verif/check $id --tier $tier 2>&1); st=$?
  echo "$id exit=$st $(echo "$out" | tail -1 | cut -c1-120)"
  [ $st -ne 0 ] && { rc=1; echo "$out" | grep -E "^VIOLATION|^  |INFRA|INCONCLUSIVE|KNOWN" | head -8 | cut -c1-300; }
done
exit $rc
