#!/bin/bash
# usage: seedtest.sh <seed-dir> <check-id> [<check-id>...]
# Confirms a seeded change (patch.diff + demo.sh) against /repo and runs the named checks against it.
# Always restores /repo afterwards.
set -u
SD=$1; shift
export GOFLAGS=-mod=mod GOPROXY=off GOTOOLCHAIN=auto
cd /repo || exit 2
if [ -n "$(git status --porcelain)" ]; then echo "REPO-DIRTY"; exit 2; fi
restore() { git -C /repo checkout -q -- . ; git -C /repo clean -fdq; }
trap restore EXIT
echo "== $SD"
if ! git apply --check "$SD/patch.diff" 2>/tmp/applyerr.txt; then echo "PATCH-DOES-NOT-APPLY: $(head -3 /tmp/applyerr.txt)"; exit 3; fi
bash "$SD/demo.sh" /repo >/tmp/demo_clean.txt 2>&1; c=$?
echo "demo on clean tree: exit $c"
git apply "$SD/patch.diff"
if ! go build ./... >/tmp/build.txt 2>&1; then echo "BUILD-FAILS"; head -5 /tmp/build.txt; exit 3; fi
if go test -vet=off -count=1 ./... >/tmp/suite.txt 2>&1; then echo "suite: pass"; else echo "suite: FAIL"; grep -v "^ok\|no test files" /tmp/suite.txt | head; fi
bash "$SD/demo.sh" /repo >/tmp/demo_patched.txt 2>&1; p=$?
echo "demo on patched tree: exit $p"
for id in "$@"; do
  out=$(cd /verif && ./check $id 2>&1); rc=$?
  echo "check $id on patched tree: exit $rc"
  echo "$out" | grep -E "^VIOLATION|^  |INFRA|GENERATOR" | head -6 | cut -c1-400
done
