#!/bin/bash
# usage: seedmatrix.sh [<seed-dir>...]   (default: every directory under /verif/seeded)
# Runs, for every kept seeded change, the quick check of its property against a
# scratch worktree of /repo with the change applied (never /repo itself), and
# prints one line per seed: CAUGHT / MISSED / PATCH-DOES-NOT-APPLY.
# Evidence and found replays of these trials go to a scratch directory.
# CONFIRM=1 also confirms each seed (demo on clean worktree, build + unedited suite + demo with the patch).
# CHECKS="C05 C12" overrides the checks taken from meta.json.
set -u
export GOFLAGS=-mod=mod GOPROXY=off GOTOOLCHAIN=auto
WT=$(mktemp -d /tmp/seedrepo.XXXXXX)
OUT=$(mktemp -d /tmp/seedtrial.XXXXXX)
git -C /repo worktree add -q --detach "$WT" HEAD || exit 2
trap 'git -C /repo worktree remove --force "$WT" >/dev/null 2>&1; rm -rf "$WT" "$OUT"' EXIT
dirs=("$@"); [ ${#dirs[@]} -eq 0 ] && dirs=(/verif/seeded/*/)
for sd in "${dirs[@]}"; do
  sd=$(realpath "${sd%/}")
  checks=$(python3 -c "
import json,re
m=json.load(open('$sd/meta.json'))
ids=[]
for c in re.findall(r'C[0-9][0-9]', str(m.get('caught_by',''))) or [m['property']]:
    if c not in ids: ids.append(c)
print(' '.join(ids))" 2>/dev/null)
  [ -n "${CHECKS:-}" ] && checks="$CHECKS"
  if python3 -c "import json,sys; sys.exit(0 if json.load(open('$sd/meta.json')).get('obsolete') else 1)" 2>/dev/null; then echo "$(basename $sd): OBSOLETE (see meta.json)"; continue; fi
  git -C "$WT" checkout -q -- . ; git -C "$WT" clean -fdq
  label=$(basename $(dirname $sd))/$(basename $sd)
  conf=""
  if [ -n "${CONFIRM:-}" ]; then
    # confirm the seed itself: demo passes on the clean worktree, and with the patch the tree builds, the unedited suite passes, the demo fails
    bash "$sd/demo.sh" "$WT" >/dev/null 2>&1; dc=$?
  fi
  if ! git -C "$WT" apply "$sd/patch.diff" 2>/dev/null; then echo "$label: PATCH-DOES-NOT-APPLY"; continue; fi
  if [ -n "${CONFIRM:-}" ]; then
    (cd "$WT" && go build ./... >/dev/null 2>&1); b=$?
    (cd "$WT" && go test -vet=off -count=1 ./... >"$OUT/suite.txt" 2>&1); su=$?
    bash "$sd/demo.sh" "$WT" >/dev/null 2>&1; dp=$?
    conf=" [confirm: demo-clean=$dc build=$b suite=$su demo-patched=$dp]"
    git -C "$WT" checkout -q -- . ; git -C "$WT" clean -fdq; git -C "$WT" apply "$sd/patch.diff"
  fi
  res=""
  for c in $checks; do
    VERIF_REPO="$WT" VERIF_EVIDENCE_DIR="$OUT/ev" VERIF_FOUND_DIR="$OUT/found" /verif/check $c >"$OUT/log.txt" 2>&1; rc=$?
    res="$res $c=$rc"
  done
  if python3 -c "import json,sys; sys.exit(0 if json.load(open('$sd/meta.json')).get('not_claimed') else 1)" 2>/dev/null; then echo "$label: NOT-CLAIMED ($res ) - see meta.json"; continue; fi
  case "$res" in *=1*) echo "$label: CAUGHT ($res )$conf";; *=2*) echo "$label: INFRA ($res )$conf"; tail -3 "$OUT/log.txt";; *) echo "$label: MISSED ($res )$conf";; esac
done
