#!/bin/bash
# usage: seedmatrix.sh [<seed-dir>...]   (default: every directory under /verif/seeded)
# Runs, for every kept seeded change, the quick check of its property against a
# scratch worktree of /repo with the change applied (never /repo itself), and
# prints one line per seed: CAUGHT / MISSED / PATCH-DOES-NOT-APPLY.
# Evidence and found replays of these trials go to a scratch directory.
set -u
export GOFLAGS=-mod=mod GOPROXY=off GOTOOLCHAIN=auto
WT=$(mktemp -d /tmp/seedrepo.XXXXXX)
OUT=$(mktemp -d /tmp/seedtrial.XXXXXX)
git -C /repo worktree add -q --detach "$WT" HEAD || exit 2
trap 'git -C /repo worktree remove --force "$WT" >/dev/null 2>&1; rm -rf "$WT" "$OUT"' EXIT
dirs=("$@"); [ ${#dirs[@]} -eq 0 ] && dirs=(/verif/seeded/*/)
for sd in "${dirs[@]}"; do
  sd=${sd%/}
  id=$(python3 -c "import json,sys;print(json.load(open('$sd/meta.json'))['property'])" 2>/dev/null)
  checks=$(python3 -c "
import json,re
m=json.load(open('$sd/meta.json'))
ids=[]
for c in re.findall(r'C[0-9][0-9]', str(m.get('caught_by',''))) or [m['property']]:
    if c not in ids: ids.append(c)
print(' '.join(ids))" 2>/dev/null)
  git -C "$WT" checkout -q -- . ; git -C "$WT" clean -fdq
  if ! git -C "$WT" apply "$sd/patch.diff" 2>/dev/null; then echo "$(basename $sd): PATCH-DOES-NOT-APPLY"; continue; fi
  res=""
  for c in $checks; do
    VERIF_REPO="$WT" VERIF_EVIDENCE_DIR="$OUT/ev" VERIF_FOUND_DIR="$OUT/found" /verif/check $c >"$OUT/log.txt" 2>&1; rc=$?
    res="$res $c=$rc"
  done
  case "$res" in *=1*) echo "$(basename $sd): CAUGHT ($res )";; *=2*) echo "$(basename $sd): INFRA ($res )"; tail -3 "$OUT/log.txt";; *) echo "$(basename $sd): MISSED ($res )";; esac
done
