#!/bin/sh
# Offline warm-up: compiles the harness and gogreement once so later checks hit the build cache.
set -e
export GOFLAGS=-mod=mod GOPROXY=off GOTOOLCHAIN=auto
unset GOSUMDB GOWORK
cd /verif/harness
go test -c -o /dev/null ./props
cd /repo
go build -o /dev/null ./cmd/gogreement
echo setup-ok
