#!/usr/bin/env python3
"""keepseed.py <seed-dir> <name> <property> <caught_by> <first_missed:yes|no> <note>
Copies a confirmed seeded change into /verif/seeded/<name>/ and extends its meta.json."""
import json, os, shutil, sys
src, name, prop, caught, missed, note = sys.argv[1:7]
dst = os.path.join('/verif/seeded', name)
if os.path.exists(dst): shutil.rmtree(dst)
os.makedirs(dst)
for e in os.listdir(src):
    p = os.path.join(src, e)
    if os.path.isfile(p) and os.path.getsize(p) > 2_000_000: continue  # skip binaries
    if os.path.isdir(p): shutil.copytree(p, os.path.join(dst, e))
    else: shutil.copy(p, dst)
mp = os.path.join(dst, 'meta.json')
try: meta = json.load(open(mp))
except Exception: meta = {}
meta.update({"property": prop, "confirmed_by_me": "seedtest.sh: patch applies to /repo HEAD, go build ok, existing suite passes, demo.sh exits 0 on clean tree and non-zero with the patch",
             "caught_by": caught, "missed_by_first_version_of_check": missed == "yes", "note": note,
             "ran": "./seedtest.sh <seed-dir> %s  (applies patch to /repo, runs suite + demo + ./check, restores /repo)" % prop})
json.dump(meta, open(mp, 'w'), indent=1)
print("kept", dst)
