#!/usr/bin/env python3
"""Print a replay file readably: meta fields, then each source with line numbers (only files matching argv[2] if given)."""
import json,sys
d=json.load(open(sys.argv[1]))
print('property',d.get('property'),'kind',d.get('kind'))
print('summary:',d.get('summary'))
c=d['data']
pat=sys.argv[2] if len(sys.argv)>2 else ''
for k,v in c.items():
    if isinstance(v,dict) and v and all(isinstance(x,str) and '\n' in x for x in v.values()):
        for f,src in sorted(v.items()):
            if pat and pat not in f: continue
            print('=====',k,f)
            for i,l in enumerate(src.split('\n'),1): print('%4d %s'%(i,l))
    else:
        print(k,'=',json.dumps(v)[:2000])
