// Package proggen holds the program MODEL the generators draw, the renderer
// that turns it into Go source, and the per-category expectation functions
// (oracles) that read the model - never gogreement's own AST walk.
package proggen

import (
	"fmt"
	"sort"
	"strconv"
	"strings"

	"verif/harness/engine"
)

const Module = "vf.test/m"

type FileKind int

const (
	FileRegular FileKind = iota
	FileInTest           // x_test.go, same package
	FileXTest            // external test package (package name_test)
)

type Prog struct {
	Pkgs      []*Pkg
	nextID    int
	renameGen int
	renameSeq int
}

func (p *Prog) NewID() int { p.nextID++; return p.nextID }

type Pkg struct {
	Dir   string // directory relative to module root, e.g. "a", "n/sub", "d-x"
	Name  string // declared package name
	Files []*File
	Idx   int
	// Consumer: the package declares no annotations of its own
	Consumer bool
}

func (p *Pkg) Path() string { return Module + "/" + p.Dir }

type File struct {
	Name         string
	Kind         FileKind
	Pkg          *Pkg
	Decls        []Decl
	Head         []string        // comment lines before the package clause
	Aliases      map[*Pkg]string // explicit import alias per imported package ("" = none)
	BlankImports []*Pkg          // import _ "path" (keeps a package directly imported)
	DotImport    *Pkg            // import . "path": names of this package are written without qualifier in this file
	Unsafe       bool            // the file imports "unsafe" (first in its import block) and uses it once
	// filled by the renderer:
	Lines   []string
	Imports []*Pkg
}

func (f *File) IsTest() bool { return strings.HasSuffix(f.Name, "_test.go") }

// PkgName is the package clause name of this file.
func (f *File) PkgName() string {
	if f.Kind == FileXTest {
		return f.Pkg.Name + "_test"
	}
	return f.Pkg.Name
}

// SrcPkgPath is the import path of the package this file compiles into.
func (f *File) SrcPkgPath() string {
	if f.Kind == FileXTest {
		return f.Pkg.Path() + "_test"
	}
	return f.Pkg.Path()
}

type Decl interface {
	declNode() *Node
}

// Node carries layout information filled in by the renderer and comments
// attached by transformations (C07).
type Node struct {
	Before       []string // full comment lines placed on their own lines before the node
	Trailing     string   // comment appended to the node's first line (after the tag)
	TrailingLast string   // comment appended to the node's last line (multi-line nodes)
	BlankBefore  int      // blank lines before (layout transformation)
	File         *File
	Start        int // 1-based first line of the node itself (not its Before comments)
	End          int
	GroupEnd     int // head of a type ( ... ) group with further specs: last line of the last spec (0 otherwise)
}

type TypeKind int

const (
	KStruct TypeKind = iota
	KInt
	KSlice
	KMap
	KIface
	KSliceOf // type Name []Elem   (Elem a named struct type, possibly of another package)
	KMapOf   // type Name map[string]Elem
)

type Field struct {
	Name     string
	Basic    string    // "int", "[]int", "map[string]int" when Type == nil
	Type     *TypeDecl // named field type (value or pointer)
	Ptr      bool
	Embedded bool
	Mutable  bool
	With     []string // further names declared by the same field declaration: P, Q, R int (one doc comment for all)
	JoinPrev bool     // this field is one of the With names of the field before it (not rendered on its own)
	Doc      []string // extra doc lines
	ID       int      // site id of the field line
	Ref      *TypeRef
}

type TypeDecl struct {
	Node
	ID     int
	Name   string
	Pkg    *Pkg
	Kind   TypeKind
	Fields []*Field
	// annotations
	Immutable     bool
	Constructors  []string // names; nil = no @constructor
	CtorSpelling  string   // rendered argument text of the @constructor line
	DocPrefix     string   // spelling of the comment opener of annotation lines: "" = "// ", else "//", "//  ", "//\t"
	CtorSplit     int      // > 0: the first CtorSplit names on one @constructor line, the others on a second one
	TestOnly      bool
	PackageOnly   [][]string // one entry per @packageonly line; nil = none
	Implements    []string   // raw argument text per @implements line
	ImplRefs      []ImplRef  // structured @implements lines (qualifier resolved per file at render time)
	ExtraDoc      []string   // other doc lines (noise), rendered first
	Grouped       bool       // rendered as type ( ... ) group
	FuncLocal     bool       // an alias declared inside the function body, right before the statement that uses it (never part of a file's declarations)
	JoinPrev      bool       // rendered inside the group of the type declaration right before it (if that one is Grouped)
	IfaceMethods  []string   // for KIface: method signatures
	AliasOf       *TypeRef   // if non-nil this is an alias declaration: type Name = X
	Elem          *TypeRef   // element type of KSliceOf / KMapOf
	DefOf         *TypeDecl  // type Name DefOf: a defined type built from another struct type (shares its fields, not its methods or annotations); Fields holds copies of the writable basic fields
	methodsClosed bool       // all methods of this type have been generated
}

func (t *TypeDecl) declNode() *Node { return &t.Node }
func (t *TypeDecl) Exported() bool  { return t.Name != "" && t.Name[0] >= 'A' && t.Name[0] <= 'Z' }
func (t *TypeDecl) HasCtor() bool   { return len(t.Constructors) > 0 }
func (t *TypeDecl) IsCtor(fn string) bool {
	for _, c := range t.Constructors {
		if c == fn {
			return true
		}
	}
	return false
}
func (t *TypeDecl) FieldByName(n string) *Field {
	for _, f := range t.Fields {
		if f.Name == n {
			return f
		}
	}
	return nil
}

// ImplRef is one `@implements [&]pkg.Iface` line.
type ImplRef struct {
	Ptr   bool
	Iface *TypeDecl
	Raw   string // if set: rendered verbatim after "@implements " (missing interface, unknown qualifier)
}

// TypeRef is one syntactic mention of a named type.
type TypeRef struct {
	Type     *TypeDecl
	Ptr      bool
	Via      *TypeDecl // alias declaration used instead of the name (C13)
	ViaPtr   *TypeDecl // alias of the pointer type (type PAl = *T) used instead of *T (C13)
	Paren    bool      // (T) where allowed
	ParenAll bool      // (*T): parentheses around the whole pointer type (receivers)
	Wrap     string    // composite type built from the mention: "[]", "[2]", "map[string]", "chan ", "..." (variadic parameter), "[]" + pointer = []*T
	WrapKey  *TypeDecl // Wrap == "map[string]": use this named (unannotated) key type instead of string
}

type Var struct {
	Name     string
	Basic    string    // type text when Ref == nil ("" = int)
	Ref      *TypeRef  // nil for plain int
	ID       int       // site id of the declaring line (params)
	Shadow   bool      // deliberately carries the name of an outer variable (e.g. the receiver)
	PkgNamed *Pkg      // if set, spelled like this package\'s qualifier in the file (shadows it)
	CallOf   *FuncDecl // if set, the operand is the call CallOf() of a same-package helper
	renamed  int
}

func (v *Var) IsPtr() bool { return v.Ref != nil && v.Ref.Ptr }

type FuncDecl struct {
	Node
	ID          int
	Name        string
	Pkg         *Pkg
	Recv        *Var // nil for functions
	Params      []*Var
	Results     []*TypeRef
	ResultIDs   []int
	Body        []Stmt
	TestOnly    bool
	PackageOnly [][]string
	ExtraDoc    []string
	RetExpr     string // expression returned when Results non-empty (rendered verbatim after refs)
	RetSite     *Site  // optional site that is the return statement
	RetVar      *Var   // if set: return <RetVar.Name>
	DocPrefix   string // as TypeDecl.DocPrefix
	Fluent      bool   // a method that returns its own receiver: func (r *T) W0() *T { return r }
	Generic     bool   // func Name[K any](k0 K, params...): callers may instantiate explicitly
	done        bool   // body complete (usable as a call target)
	called      bool   // referenced from a site: must stay in a regular file
}

func (f *FuncDecl) declNode() *Node { return &f.Node }

// VarDecl is a package-level var declaration: either `var name = func(params) {body}`
// (a package-level initialiser closure) or a one-line site such as `var g T`.
type VarDecl struct {
	Node
	ID      int
	Name    string
	Pkg     *Pkg
	Closure *Closure // if non-nil
	Site    *Site    // if non-nil: the whole declaration is this one-line site
	Grouped bool     // var ( ... )
	Site2   *Site    // second spec of the same var ( ... ) group (only with Grouped and Site)
}

func (v *VarDecl) declNode() *Node { return &v.Node }

type Closure struct {
	Params []*Var
	Body   []Stmt
}

type Stmt interface {
	stmtNode() *Node
}

type WrapKind int

const (
	WIf WrapKind = iota
	WFor
	WSwitch
	WSelect
	WClosure
	WDefer
	WGo
	WBlock
	WAssignClosure // _ = func() {...}            (closure as operand of an assignment)
	WArgClosure    // func(f func()) {}(func() {...}) (closure as call argument)
	WVarClosure    // var fnN = func() {...}; _ = fnN  (closure in a local declaration)
	WClosureParams // func(params){...}(nil...) closure with its own params
	numWraps
)

var WrapNames = []string{"if", "for", "switch", "select", "closure", "defer", "go", "block", "assign-closure", "arg-closure", "var-closure", "closureparams"}

type Wrap struct {
	Node
	Kind   WrapKind
	Body   []Stmt
	Params []*Var // WClosureParams
	Name   string // WVarClosure: the declared variable
}

func (w *Wrap) stmtNode() *Node { return &w.Node }

// Site is one candidate statement on one line.
type Site struct {
	Node
	ID          int
	Kind        string
	Type        *TypeDecl
	Ref         *TypeRef // mention of Type at this site, if any
	Field       *Field
	Field2      *Field // second field (imm.tuple2)
	Opnd        *Var
	Fn          *FuncDecl
	Fn2         *FuncDecl // second method of a chain x.Fn().Fn2() (mcall.chain)
	Inst        bool      // the callee carries explicit type arguments: F[int](...)
	ParenCallee bool      // the callee is parenthesised: (q.F)(...), (x.M)(...)
	ParenTarget bool      // the written target is parenthesised: (x.f) = v, (x.f)++, (*r) = v
	Aux         string    // kind-specific
	Local       string    // name of a local variable introduced / used
	LocalVar    *Var      // if set, the introduced local (its Name overrides Local)
	Multi       bool      // rendered over several lines (diagnostic expected on the tagged line)
	Form        string    // how an expression site is embedded: "" (_ = E) | return | define | pkgvar
	Grouped     bool      // inside a var ( ... ) group (set by the renderer)
}

func (s *Site) stmtNode() *Node { return &s.Node }

// OneLiner is several simple sites written on one source line inside
// `if true { a; b }` with inline /* sN */ tags (gofmt splits it into lines).
type OneLiner struct {
	Node
	Sites []*Site
}

func (o *OneLiner) stmtNode() *Node { return &o.Node }

// Filler is an untagged harmless line (e.g. `_ = x`).
type Filler struct {
	Node
	Text string
}

func (f *Filler) stmtNode() *Node { return &f.Node }

// ---------------------------------------------------------------------------
// traversal helpers

// Ctx is the static context of a site.
type Ctx struct {
	Pkg      *Pkg
	File     *File
	Func     *FuncDecl // enclosing top-level function or method; nil at package level
	VarDecl  *VarDecl  // enclosing package-level var declaration, if any
	Wraps    []WrapKind
	TypeDecl *TypeDecl // for field sites
}

func (c Ctx) Container() string {
	switch {
	case c.TypeDecl != nil:
		return "typedecl"
	case c.VarDecl != nil && c.VarDecl.Closure != nil:
		return "pkgvar-closure"
	case c.VarDecl != nil:
		return "pkgvar"
	case c.Func != nil && c.Func.Recv != nil:
		return "method"
	case c.Func != nil:
		return "func"
	}
	return "?"
}

// SiteInfo pairs a site with its context, in source order.
type SiteInfo struct {
	Site *Site
	Ctx  Ctx
}

// Walk visits every site of the program in rendered source order per file.
func (p *Prog) Walk(fn func(SiteInfo)) {
	for _, pkg := range p.Pkgs {
		for _, f := range pkg.Files {
			for _, d := range f.Decls {
				walkDecl(pkg, f, d, fn)
			}
		}
	}
}

func walkDecl(pkg *Pkg, f *File, d Decl, fn func(SiteInfo)) {
	switch d := d.(type) {
	case *TypeDecl:
		ctx := Ctx{Pkg: pkg, File: f, TypeDecl: d}
		fn(SiteInfo{Site: d.declSite(), Ctx: ctx})
		for _, fl := range d.Fields {
			if d.DefOf != nil {
				break // the fields are written in DefOf's declaration only
			}
			if fl.JoinPrev {
				continue // shares the line (and the tag) of the declaration's first name
			}
			fn(SiteInfo{Site: fl.site(d), Ctx: ctx})
		}
	case *FuncDecl:
		ctx := Ctx{Pkg: pkg, File: f, Func: d}
		if d.Recv != nil {
			fn(SiteInfo{Site: paramSite(d.Recv, "recv"), Ctx: ctx})
		}
		for _, pv := range d.Params {
			fn(SiteInfo{Site: paramSite(pv, "param"), Ctx: ctx})
		}
		for i, r := range d.Results {
			fn(SiteInfo{Site: &Site{ID: d.ResultIDs[i], Kind: "result", Type: r.Type, Ref: r}, Ctx: ctx})
		}
		walkStmts(ctx, d.Body, fn)
		if d.RetSite != nil {
			fn(SiteInfo{Site: d.RetSite, Ctx: ctx})
		}
	case *VarDecl:
		ctx := Ctx{Pkg: pkg, File: f, VarDecl: d}
		if d.Site != nil {
			fn(SiteInfo{Site: d.Site, Ctx: ctx})
		}
		if d.Site2 != nil {
			fn(SiteInfo{Site: d.Site2, Ctx: ctx})
		}
		if d.Closure != nil {
			for _, pv := range d.Closure.Params {
				fn(SiteInfo{Site: paramSite(pv, "param"), Ctx: ctx})
			}
			walkStmts(ctx, d.Closure.Body, fn)
		}
	}
}

func walkStmts(ctx Ctx, body []Stmt, fn func(SiteInfo)) {
	for _, s := range body {
		switch s := s.(type) {
		case *Site:
			fn(SiteInfo{Site: s, Ctx: ctx})
		case *OneLiner:
			c2 := ctx
			c2.Wraps = append(append([]WrapKind{}, ctx.Wraps...), WIf)
			for _, x := range s.Sites {
				fn(SiteInfo{Site: x, Ctx: c2})
			}
		case *Wrap:
			c2 := ctx
			c2.Wraps = append(append([]WrapKind{}, ctx.Wraps...), s.Kind)
			for _, pv := range s.Params {
				fn(SiteInfo{Site: paramSite(pv, "param"), Ctx: c2})
			}
			walkStmts(c2, s.Body, fn)
		}
	}
}

func paramSite(v *Var, kind string) *Site {
	s := &Site{ID: v.ID, Kind: kind, Opnd: v}
	if v.Ref != nil {
		s.Type = v.Ref.Type
		s.Ref = v.Ref
	}
	return s
}

func (t *TypeDecl) declSite() *Site {
	if t.Elem != nil {
		return &Site{ID: t.ID, Kind: "typedecl.container", Type: t.Elem.Type, Ref: t.Elem}
	}
	return &Site{ID: t.ID, Kind: "typedecl", Type: t}
}

func (fl *Field) site(owner *TypeDecl) *Site {
	s := &Site{ID: fl.ID, Kind: "field", Type: fl.Type, Ref: fl.Ref, Field: fl}
	if fl.Embedded {
		s.Kind = "embedded"
	}
	return s
}

// AllTypes returns every type declaration.
func (p *Prog) AllTypes() []*TypeDecl {
	var out []*TypeDecl
	for _, pkg := range p.Pkgs {
		for _, f := range pkg.Files {
			for _, d := range f.Decls {
				if t, ok := d.(*TypeDecl); ok {
					out = append(out, t)
				}
			}
		}
	}
	return out
}

func (p *Prog) AllFuncs() []*FuncDecl {
	var out []*FuncDecl
	for _, pkg := range p.Pkgs {
		for _, f := range pkg.Files {
			for _, d := range f.Decls {
				if t, ok := d.(*FuncDecl); ok {
					out = append(out, t)
				}
			}
		}
	}
	return out
}

// FileOf returns the file a declaration currently lives in.
func (p *Prog) FileOf(d Decl) *File {
	for _, pkg := range p.Pkgs {
		for _, f := range pkg.Files {
			for _, x := range f.Decls {
				if x == d {
					return f
				}
			}
		}
	}
	return nil
}

// ToEngine converts the rendered program for the engine.
func (p *Prog) ToEngine() *engine.Program {
	ep := &engine.Program{Module: Module}
	for _, pkg := range p.Pkgs {
		e := &engine.Package{Path: pkg.Path()}
		for _, f := range pkg.Files {
			e.Files = append(e.Files, engine.File{Name: f.Name, Src: strings.Join(f.Lines, "\n") + "\n"})
		}
		ep.Pkgs = append(ep.Pkgs, e)
	}
	return ep
}

// Sources returns path -> text (for replays and samples).
func (p *Prog) Sources() map[string]string {
	out := map[string]string{}
	for _, pkg := range p.Pkgs {
		for _, f := range pkg.Files {
			out[pkg.Dir+"/"+f.Name] = strings.Join(f.Lines, "\n") + "\n"
		}
	}
	return out
}

func (p *Prog) Size() int {
	n := 0
	for _, pkg := range p.Pkgs {
		for _, f := range pkg.Files {
			n += len(f.Lines)
		}
	}
	return n
}

func sortedKeys(m map[string]bool) []string {
	var ks []string
	for k := range m {
		ks = append(ks, k)
	}
	sort.Strings(ks)
	return ks
}

func (s *Site) String() string { return fmt.Sprintf("s%d:%s", s.ID, s.Kind) }

// NodeRef names one declaration or statement node of the program together
// with the ids of the sites it contains (transitively).
type NodeRef struct {
	File  *File
	Decl  Decl
	Stmt  Stmt // nil when the ref is the declaration itself
	Node  *Node
	Sites []int
	Depth int
}

// Nodes enumerates every declaration and statement node.
func (p *Prog) Nodes() []NodeRef {
	var out []NodeRef
	var stmtSites func(s Stmt) []int
	stmtSites = func(s Stmt) []int {
		switch s := s.(type) {
		case *Site:
			return []int{s.ID}
		case *OneLiner:
			var ids []int
			for _, x := range s.Sites {
				ids = append(ids, x.ID)
			}
			return ids
		case *Wrap:
			var ids []int
			for _, pv := range s.Params {
				ids = append(ids, pv.ID)
			}
			for _, c := range s.Body {
				ids = append(ids, stmtSites(c)...)
			}
			return ids
		}
		return nil
	}
	var walk func(f *File, d Decl, ss []Stmt, depth int)
	walk = func(f *File, d Decl, ss []Stmt, depth int) {
		for _, s := range ss {
			out = append(out, NodeRef{File: f, Decl: d, Stmt: s, Node: s.stmtNode(), Sites: stmtSites(s), Depth: depth})
			if w, ok := s.(*Wrap); ok {
				walk(f, d, w.Body, depth+1)
			}
		}
	}
	for _, pkg := range p.Pkgs {
		for _, f := range pkg.Files {
			for _, d := range f.Decls {
				ref := NodeRef{File: f, Decl: d, Node: d.declNode()}
				walkDecl(pkg, f, d, func(si SiteInfo) { ref.Sites = append(ref.Sites, si.Site.ID) })
				out = append(out, ref)
				switch d := d.(type) {
				case *FuncDecl:
					walk(f, d, d.Body, 1)
					if d.RetSite != nil {
						out = append(out, NodeRef{File: f, Decl: d, Stmt: d.RetSite, Node: &d.RetSite.Node, Sites: []int{d.RetSite.ID}, Depth: 1})
					}
				case *VarDecl:
					if d.Closure != nil {
						walk(f, d, d.Closure.Body, 1)
					}
				}
			}
		}
	}
	return out
}

// TagLines maps site id -> (file key "dir/name", 1-based line) by scanning the
// rendered text.
func (p *Prog) TagLines() map[int]struct {
	File string
	Line int
} {
	out := map[int]struct {
		File string
		Line int
	}{}
	for _, pkg := range p.Pkgs {
		for _, f := range pkg.Files {
			for i, l := range f.Lines {
				for _, m := range tagRe.FindAllStringSubmatch(l, -1) {
					id, _ := strconv.Atoi(m[1])
					out[id] = struct {
						File string
						Line int
					}{pkg.Dir + "/" + f.Name, i + 1}
				}
			}
		}
	}
	return out
}
