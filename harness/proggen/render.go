package proggen

import (
	"fmt"
	"regexp"
	"sort"
	"strconv"
	"strings"
)

type renderer struct {
	f       *File
	lines   []string
	imports map[*Pkg]bool
	indent  int
}

func (r *renderer) emit(format string, args ...interface{}) int {
	s := fmt.Sprintf(format, args...)
	r.lines = append(r.lines, strings.Repeat("\t", r.indent)+s)
	return len(r.lines)
}

func tag(id int) string { return fmt.Sprintf(" // s%d", id) }

// qual returns the qualifier ("pkg.") to use in this file for items of pkg.
func (r *renderer) qual(p *Pkg) string {
	if p == r.f.Pkg && r.f.Kind != FileXTest {
		return ""
	}
	r.imports[p] = true
	if p == r.f.DotImport {
		return ""
	}
	if a := r.f.Aliases[p]; a != "" {
		return a + "."
	}
	return p.Name + "."
}

func (r *renderer) tname(t *TypeDecl) string {
	if t.FuncLocal {
		return t.Name // declared in the enclosing block
	}
	return r.qual(t.Pkg) + t.Name
}

// localAliasLine emits "type lAlN = pkg.T" for a site whose mention goes through a function-local alias.
func (r *renderer) localAliasLine(s *Site) {
	if s.Ref != nil && s.Ref.Via != nil && s.Ref.Via.FuncLocal {
		r.emit("type %s = %s%s", s.Ref.Via.Name, r.ref(s.Ref.Via.AliasOf), tag(s.Ref.Via.ID))
	}
}

// ref renders a type mention.
func (r *renderer) ref(tr *TypeRef) string {
	if tr.Ptr && tr.ViaPtr != nil && !tr.ParenAll {
		// type PAl = *T (decided first: naming T would register an import the file may not need)
		wrap := tr.Wrap
		if tr.WrapKey != nil && wrap == "map[string]" {
			wrap = "map[" + r.tname(tr.WrapKey) + "]"
		}
		return wrap + r.tname(tr.ViaPtr)
	}
	base := ""
	if tr.Via != nil {
		base = r.tname(tr.Via)
	} else {
		base = r.tname(tr.Type)
	}
	if tr.Paren {
		base = "(" + base + ")"
	}
	wrap := tr.Wrap
	if tr.WrapKey != nil && wrap == "map[string]" {
		wrap = "map[" + r.tname(tr.WrapKey) + "]"
	}
	if tr.Ptr {
		if tr.ParenAll {
			return "(*" + base + ")"
		}
		return wrap + "*" + base
	}
	return wrap + base
}

// refNoPtr renders the mention ignoring Ptr (for literals, new, ...).
func (r *renderer) refNoPtr(tr *TypeRef) string {
	c := *tr
	c.Ptr = false
	c.ViaPtr = nil
	c.Wrap, c.WrapKey = "", nil
	return r.ref(&c)
}

func (r *renderer) before(n *Node) {
	for i := 0; i < n.BlankBefore; i++ {
		r.lines = append(r.lines, "")
	}
	for _, c := range n.Before {
		r.emit("%s", c)
	}
}

func (r *renderer) trail(n *Node) string {
	if n.Trailing != "" {
		return " " + n.Trailing
	}
	return ""
}

func (r *renderer) trailLast(n *Node) string {
	if n.TrailingLast != "" {
		return " " + n.TrailingLast
	}
	return ""
}

func (r *renderer) docLines(t *TypeDecl) []string {
	var d []string
	d = append(d, t.ExtraDoc...)
	for _, ir := range t.ImplRefs {
		amp := ""
		if ir.Ptr {
			amp = "&"
		}
		if ir.Raw != "" {
			d = append(d, "// @implements "+amp+ir.Raw)
			continue
		}
		d = append(d, "// @implements "+amp+r.qual(ir.Iface.Pkg)+ir.Iface.Name)
	}
	if t.Immutable {
		d = append(d, "// @immutable")
	}
	if t.Constructors != nil {
		sp := t.CtorSpelling
		if sp == "" {
			sp = strings.Join(t.Constructors, ", ")
		}
		if t.CtorSplit > 0 && t.CtorSplit < len(t.Constructors) {
			// several @constructor lines on one declaration: the lists add up
			d = append(d, "// @constructor "+strings.Join(t.Constructors[:t.CtorSplit], ", "))
			d = append(d, "// @constructor "+strings.Join(t.Constructors[t.CtorSplit:], ","))
		} else {
			d = append(d, "// @constructor "+sp)
		}
	}
	if t.TestOnly {
		d = append(d, "// @testonly")
	}
	for _, l := range t.PackageOnly {
		if len(l) == 0 {
			d = append(d, "// @packageonly")
		} else {
			d = append(d, "// @packageonly "+strings.Join(l, ", "))
		}
	}
	for _, l := range t.Implements {
		d = append(d, "// @implements "+l)
	}
	return respellOpener(d, t.DocPrefix)
}

// respellOpener rewrites the "// " in front of annotation lines (the grammar
// allows any blanks, or none, between // and @; gofmt normalises them).
func respellOpener(d []string, prefix string) []string {
	if prefix == "" {
		return d
	}
	for i, l := range d {
		if strings.HasPrefix(l, "// @") {
			d[i] = prefix + l[3:]
		}
	}
	return d
}

// typeDecl renders t; members are further specs of the same type ( ... ) group.
func (r *renderer) typeDecl(t *TypeDecl, members ...*TypeDecl) {
	r.before(&t.Node)
	prefix := "type "
	if t.Grouped {
		r.emit("type (")
		r.indent++
		prefix = ""
	}
	r.typeSpec(t, prefix)
	t.GroupEnd = 0
	for _, m := range members {
		r.lines = append(r.lines, "")
		r.before(&m.Node)
		r.typeSpec(m, "")
		t.GroupEnd = m.End
	}
	if t.Grouped {
		r.indent--
		r.emit(")")
	}
	for _, m := range append([]*TypeDecl{t}, members...) {
		for _, ir := range m.ImplRefs {
			if ir.Raw != "" {
				continue
			}
			if ir.Iface.Pkg != r.f.Pkg || r.f.Kind == FileXTest {
				// the annotation's qualifier must be bound by an import of this file
				r.emit("")
				r.emit("var _ %s%s", r.qual(ir.Iface.Pkg), ir.Iface.Name)
			}
		}
	}
}

func (r *renderer) typeSpec(t *TypeDecl, prefix string) {
	for _, d := range r.docLines(t) {
		r.emit("%s", d)
	}
	t.File = r.f
	switch {
	case t.AliasOf != nil:
		t.Start = r.emit("%s%s = %s%s%s", prefix, t.Name, r.ref(t.AliasOf), r.trail(&t.Node), tag(t.ID))
		t.End = t.Start
	case t.DefOf != nil:
		t.Start = r.emit("%s%s %s%s%s", prefix, t.Name, t.DefOf.Name, r.trail(&t.Node), tag(t.ID))
		t.End = t.Start
	case t.Kind == KStruct:
		if len(t.Fields) == 0 {
			t.Start = r.emit("%s%s struct{}%s%s", prefix, t.Name, r.trail(&t.Node), tag(t.ID))
			t.End = t.Start
			break
		}
		t.Start = r.emit("%s%s struct {%s%s", prefix, t.Name, r.trail(&t.Node), tag(t.ID))
		r.indent++
		for _, f := range t.Fields {
			if f.JoinPrev {
				continue // declared together with the field before it
			}
			for _, d := range f.Doc {
				r.emit("%s", d)
			}
			if f.Mutable {
				r.emit("%s", respellOpener([]string{"// @mutable"}, t.DocPrefix)[0])
			}
			ty := f.Basic
			if f.Ref != nil {
				ty = r.ref(f.Ref)
			}
			if f.Embedded {
				r.emit("%s%s", ty, tag(f.ID))
			} else if len(f.With) > 0 {
				r.emit("%s, %s %s%s", f.Name, strings.Join(f.With, ", "), ty, tag(f.ID))
			} else {
				r.emit("%s %s%s", f.Name, ty, tag(f.ID))
			}
		}
		r.indent--
		t.End = r.emit("}%s", r.trailLast(&t.Node))
	case t.Kind == KSliceOf:
		t.Start = r.emit("%s%s []%s%s%s", prefix, t.Name, r.ref(t.Elem), r.trail(&t.Node), tag(t.ID))
		t.End = t.Start
	case t.Kind == KMapOf:
		t.Start = r.emit("%s%s map[string]%s%s%s", prefix, t.Name, r.ref(t.Elem), r.trail(&t.Node), tag(t.ID))
		t.End = t.Start
	case t.Kind == KInt:
		t.Start = r.emit("%s%s int%s%s", prefix, t.Name, r.trail(&t.Node), tag(t.ID))
		t.End = t.Start
	case t.Kind == KSlice:
		t.Start = r.emit("%s%s []int%s%s", prefix, t.Name, r.trail(&t.Node), tag(t.ID))
		t.End = t.Start
	case t.Kind == KMap:
		t.Start = r.emit("%s%s map[string]int%s%s", prefix, t.Name, r.trail(&t.Node), tag(t.ID))
		t.End = t.Start
	case t.Kind == KIface:
		if len(t.IfaceMethods) == 0 {
			t.Start = r.emit("%s%s interface{}%s%s", prefix, t.Name, r.trail(&t.Node), tag(t.ID))
			t.End = t.Start
			break
		}
		t.Start = r.emit("%s%s interface {%s%s", prefix, t.Name, r.trail(&t.Node), tag(t.ID))
		r.indent++
		for _, m := range t.IfaceMethods {
			r.emit("%s", m)
		}
		r.indent--
		t.End = r.emit("}%s", r.trailLast(&t.Node))
	}
}

// vname spells a variable (or operand expression) in this file.
func (r *renderer) vname(v *Var) string {
	switch {
	case v.CallOf != nil:
		return r.qual(v.CallOf.Pkg) + v.CallOf.Name + "()"
	case v.PkgNamed != nil:
		// only the spelling of the qualifier is borrowed; no import is implied
		if a := r.f.Aliases[v.PkgNamed]; a != "" {
			return a
		}
		return v.PkgNamed.Name
	}
	return v.Name
}

func (r *renderer) varType(v *Var) string {
	if v.Ref == nil {
		if v.Basic != "" {
			return v.Basic
		}
		return "int"
	}
	return r.ref(v.Ref)
}

func funcDoc(f *FuncDecl) []string {
	var d []string
	d = append(d, f.ExtraDoc...)
	if f.TestOnly {
		d = append(d, "// @testonly")
	}
	for _, l := range f.PackageOnly {
		if len(l) == 0 {
			d = append(d, "// @packageonly")
		} else {
			d = append(d, "// @packageonly "+strings.Join(l, ", "))
		}
	}
	return respellOpener(d, f.DocPrefix)
}

func (r *renderer) funcDecl(f *FuncDecl) {
	r.before(&f.Node)
	for _, d := range funcDoc(f) {
		r.emit("%s", d)
	}
	f.File = r.f
	head := "func "
	if f.Recv != nil {
		head += fmt.Sprintf("(%s %s) ", r.vname(f.Recv), r.varType(f.Recv))
	}
	head += f.Name
	if f.Generic {
		head += "[K any]"
	}
	head += "("
	if len(f.Params) == 0 && !f.Generic {
		head += ")"
	}
	closeParams := func() string {
		// text that closes the parameter list and opens results/body
		if len(f.Results) == 0 {
			return " {"
		}
		return " ("
	}
	if len(f.Params) == 0 && !f.Generic {
		f.Start = r.emit("%s%s%s%s", head, closeParams(), r.trail(&f.Node), tag(f.ID))
	} else {
		f.Start = r.emit("%s%s%s", head, r.trail(&f.Node), tag(f.ID))
		r.indent++
		if f.Generic {
			r.emit("_ K,")
		}
		var variadic *Var
		for _, p := range f.Params {
			if p.Ref != nil && p.Ref.Wrap == "..." {
				variadic = p // rendered last, whatever its position in the model
				continue
			}
			r.emit("%s %s,%s", r.vname(p), r.varType(p), tag(p.ID))
		}
		if variadic != nil {
			r.emit("%s %s,%s", r.vname(variadic), r.varType(variadic), tag(variadic.ID))
		}
		r.indent--
		r.emit(")%s", closeParams())
	}
	if len(f.Results) > 0 {
		r.indent++
		for i, res := range f.Results {
			r.emit("%s,%s", r.ref(res), tag(f.ResultIDs[i]))
		}
		r.indent--
		r.emit(") {")
	}
	r.indent++
	r.stmts(f.Body)
	if f.RetSite != nil {
		r.site(f.RetSite)
	} else if f.RetVar != nil {
		r.emit("return %s", f.RetVar.Name)
	} else if f.RetExpr != "" {
		r.emit("return %s", f.RetExpr)
	}
	r.indent--
	f.End = r.emit("}%s", r.trailLast(&f.Node))
}

func (r *renderer) varDecl(v *VarDecl) {
	r.before(&v.Node)
	v.File = r.f
	prefix := ""
	if v.Grouped {
		r.emit("var (")
		r.indent++
	}
	if v.Site != nil {
		v.Site.Grouped = v.Grouped
		// comments attached to the declaration node belong on its only line
		two := v.Grouped && v.Site2 != nil
		if v.Trailing != "" {
			v.Site.Trailing = v.Trailing
		} else if v.TrailingLast != "" && !two {
			v.Site.Trailing = v.TrailingLast
		}
		if two && v.TrailingLast != "" {
			// the declaration's last line is the second spec's
			v.Site2.Trailing = v.TrailingLast
		}
		r.site(v.Site)
		v.Start, v.End = v.Site.Start, v.Site.End
		if v.Grouped && v.Site2 != nil {
			v.Site2.Grouped = true
			r.site(v.Site2)
			v.End = v.Site2.End
		}
	} else if v.Closure != nil {
		if !v.Grouped {
			prefix = "var "
		}
		if len(v.Closure.Params) == 0 {
			v.Start = r.emit("%s%s = func() bool {%s%s", prefix, v.Name, r.trail(&v.Node), tag(v.ID))
		} else {
			v.Start = r.emit("%s%s = func(%s%s", prefix, v.Name, r.trail(&v.Node), tag(v.ID))
			r.indent++
			for _, p := range v.Closure.Params {
				r.emit("%s %s,%s", r.vname(p), r.varType(p), tag(p.ID))
			}
			r.indent--
			r.emit(") bool {")
		}
		r.indent++
		r.stmts(v.Closure.Body)
		r.emit("return true")
		r.indent--
		v.End = r.emit("}%s", r.trailLast(&v.Node))
	}
	if v.Grouped {
		r.indent--
		r.emit(")")
	}
}

func (r *renderer) stmts(body []Stmt) {
	for _, s := range body {
		switch s := s.(type) {
		case *Site:
			r.site(s)
		case *OneLiner:
			r.oneLiner(s)
		case *Filler:
			r.before(&s.Node)
			s.File = r.f
			s.Start = r.emit("%s", s.Text)
			s.End = s.Start
		case *Wrap:
			r.wrap(s)
		}
	}
}

func (r *renderer) wrap(w *Wrap) {
	r.before(&w.Node)
	w.File = r.f
	tr := r.trail(&w.Node)
	closeText := "}"
	switch w.Kind {
	case WIf:
		w.Start = r.emit("if true {%s", tr)
	case WFor:
		w.Start = r.emit("for i := 0; i < 1; i++ {%s", tr)
	case WSwitch:
		w.Start = r.emit("switch {%s", tr)
		r.emit("case true:")
	case WSelect:
		w.Start = r.emit("select {%s", tr)
		r.emit("case <-(chan int)(nil):")
	case WClosure:
		w.Start = r.emit("func() {%s", tr)
		closeText = "}()"
	case WDefer:
		w.Start = r.emit("defer func() {%s", tr)
		closeText = "}()"
	case WGo:
		w.Start = r.emit("go func() {%s", tr)
		closeText = "}()"
	case WBlock:
		w.Start = r.emit("{%s", tr)
	case WAssignClosure:
		w.Start = r.emit("_ = func() {%s", tr)
	case WArgClosure:
		w.Start = r.emit("func(f func()) {}(func() {%s", tr)
		closeText = "})"
	case WVarClosure:
		w.Start = r.emit("var %s = func() {%s", w.Name, tr)
	case WClosureParams:
		w.Start = r.emit("func(%s", tr)
		r.indent++
		var args []string
		for _, p := range w.Params {
			r.emit("%s %s,%s", r.vname(p), r.varType(p), tag(p.ID))
			args = append(args, "nil")
		}
		r.indent--
		r.emit(") {")
		closeText = "}(" + strings.Join(args, ", ") + ")"
	}
	r.indent++
	r.stmts(w.Body)
	r.indent--
	// the body sits in a clause that is not the last one
	switch w.Kind {
	case WSwitch:
		r.emit("case false:")
	case WSelect:
		r.emit("default:")
	}
	w.End = r.emit("%s%s", closeText, r.trailLast(&w.Node))
	if w.Kind == WVarClosure {
		r.emit("_ = %s", w.Name)
	}
}

func fieldValue(f *Field) string {
	switch {
	case f.Ref != nil && f.Ref.Ptr:
		return "nil"
	case f.Basic == "int":
		return "1"
	case f.Basic == "[]int" || f.Basic == "map[string]int":
		return "nil"
	}
	return "nil"
}

// deref renders the operand for selector use.
func opnd(v *Var) string { return v.Name }

// site renders one site line (plus filler lines where Go needs them).
func (r *renderer) site(s *Site) {
	r.localAliasLine(s)
	r.before(&s.Node)
	s.File = r.f
	t := r.trail(&s.Node) + tag(s.ID)
	text, after := r.siteText(s)
	if s.Multi && strings.HasSuffix(text, "{}") {
		s.Start = r.emit("%s%s", text[:len(text)-1], t)
		s.End = r.emit("}%s", r.trailLast(&s.Node))
	} else {
		s.Start = r.emit("%s%s", text, t)
		s.End = s.Start
	}
	for _, a := range after {
		r.emit("%s", a)
	}
}

// oneLiner renders `if true { a /* s1 */; b /* s2 */ }` on a single line.
func (r *renderer) oneLiner(o *OneLiner) {
	for _, s := range o.Sites {
		r.localAliasLine(s)
	}
	r.before(&o.Node)
	o.File = r.f
	var parts []string
	for _, s := range o.Sites {
		s.File = r.f
		text, _ := r.siteText(s)
		parts = append(parts, fmt.Sprintf("%s /* s%d */", text, s.ID))
	}
	o.Start = r.emit("if true { %s }%s", strings.Join(parts, "; "), r.trail(&o.Node))
	o.End = o.Start
	for _, s := range o.Sites {
		s.Start, s.End = o.Start, o.Start
	}
}

// siteText computes the statement text of a site and the filler lines after it.
func (r *renderer) siteText(s *Site) (string, []string) {
	if s.LocalVar != nil {
		s.Local = s.LocalVar.Name
	}
	var text string
	var after []string
	o := ""
	if s.Opnd != nil {
		o = r.vname(s.Opnd)
	}
	fname := ""
	if s.Field != nil {
		fname = s.Field.Name
	}
	lhs := func(expr string) string { // wraps an expression according to Form
		switch s.Form {
		case "return":
			return "return " + expr
		case "define":
			after = append(after, "_ = "+s.Local)
			return s.Local + " := " + expr
		case "pkgvar":
			if s.Grouped {
				return s.Local + " = " + expr
			}
			return "var " + s.Local + " = " + expr
		case "arg":
			return "sink(" + expr + ")"
		}
		return "_ = " + expr
	}
	varkw := "var "
	if s.Grouped {
		varkw = ""
	}
	inFunc := s.Form != "pkgvar"
	// the written target in parentheses: (x.f) = v, (x.f)++, (x.f[0]) = v, (*r) = v
	tgt := func(e string) string {
		if s.ParenTarget {
			return "(" + e + ")"
		}
		return e
	}
	switch s.Kind {
	case "imm.assign":
		text = fmt.Sprintf("%s = %s", tgt(o+"."+fname), fieldValue(s.Field))
	case "imm.assignparen":
		if s.Opnd.IsPtr() {
			text = fmt.Sprintf("(*%s).%s = %s", o, fname, fieldValue(s.Field))
		} else {
			text = fmt.Sprintf("(%s).%s = %s", o, fname, fieldValue(s.Field))
		}
	case "imm.tuple":
		switch s.Aux {
		case "call":
			// one multi-value expression feeds the whole left-hand side
			text = fmt.Sprintf("%s.%s, _ = func() (%s, int) { return %s, 0 }()", o, fname, s.Field.Basic, fieldValue(s.Field))
		case "call1":
			text = fmt.Sprintf("_, %s.%s = func() (int, %s) { return 0, %s }()", o, fname, s.Field.Basic, fieldValue(s.Field))
		default:
			text = fmt.Sprintf("%s.%s, _ = %s, 0", o, fname, fieldValue(s.Field))
		}
	case "imm.tuple2":
		if s.Aux == "call" {
			text = fmt.Sprintf("%s.%s, %s.%s = func() (%s, %s) { return %s, %s }()", o, fname, o, s.Field2.Name, s.Field.Basic, s.Field2.Basic, fieldValue(s.Field), fieldValue(s.Field2))
			break
		}
		text = fmt.Sprintf("%s.%s, %s.%s = %s, %s", o, fname, o, s.Field2.Name, fieldValue(s.Field), fieldValue(s.Field2))
	case "imm.compound":
		text = fmt.Sprintf("%s %s 2", tgt(o+"."+fname), s.Aux)
	case "imm.incdec":
		text = fmt.Sprintf("%s%s", tgt(o+"."+fname), s.Aux)
	case "imm.index":
		if s.Field.Basic == "map[string]int" {
			text = fmt.Sprintf("%s = 1", tgt(o+"."+fname+"[\"k\"]"))
		} else if s.ParenTarget && s.ID%2 == 0 {
			text = fmt.Sprintf("(%s.%s)[0] = 1", o, fname)
		} else {
			text = fmt.Sprintf("%s = 1", tgt(o+"."+fname+"[0]"))
		}
	case "imm.nested":
		text = fmt.Sprintf("%s.%s.%s = %s", o, s.Aux, fname, fieldValue(s.Field))
	case "imm.recvassign":
		if s.Type.Kind == KInt {
			text = fmt.Sprintf("%s = 5", tgt("*"+o))
		} else {
			text = fmt.Sprintf("%s = %s{}", tgt("*"+o), r.refNoPtr(s.Ref))
		}
	case "ptr.assign":
		text = fmt.Sprintf("*%s = %s{}", o, r.refNoPtr(s.Ref))
	case "imm.recvincdec":
		text = fmt.Sprintf("%s%s", tgt("*"+o), s.Aux)
	case "read.field":
		text = fmt.Sprintf("_ = %s.%s", o, fname)
	case "read.index":
		if s.Field.Basic == "map[string]int" {
			text = fmt.Sprintf("_ = %s.%s[\"k\"]", o, fname)
		} else {
			text = fmt.Sprintf("_ = len(%s.%s)", o, fname)
		}
	case "lit":
		text = lhs(r.refNoPtr(s.Ref) + "{}")
	case "litptr":
		text = lhs("&" + r.refNoPtr(s.Ref) + "{}")
	case "elided.slice":
		text = lhs("[]" + r.refNoPtr(s.Ref) + "{{}}")
	case "elided.ptrslice":
		text = lhs("[]*" + r.refNoPtr(s.Ref) + "{{}}")
	case "elided.map":
		text = lhs("map[string]" + r.refNoPtr(s.Ref) + "{\"k\": {}}")
	case "lit.nested":
		inner := r.tname(s.Field.Type) + "{}"
		if s.Field.Ref.Ptr {
			inner = "&" + inner
		}
		text = lhs(r.refNoPtr(s.Ref) + "{" + s.Field.Name + ": " + inner + "}")
	case "elided.named":
		if s.Ref.Type.Kind == KMapOf {
			text = lhs(r.refNoPtr(s.Ref) + "{\"k\": {}}")
		} else {
			text = lhs(r.refNoPtr(s.Ref) + "{{}}")
		}
	case "mcall.promoted":
		call := fmt.Sprintf("%s.%s(%s)", o, s.Fn.Name, callArgs(s.Fn))
		if len(s.Fn.Results) > 0 {
			text = lhs(call)
		} else {
			text = call
		}
	case "new":
		callee := "new"
		if s.ParenCallee {
			callee = "(new)"
		}
		text = lhs(callee + "(" + r.refNoPtr(s.Ref) + ")")
	case "conv":
		text = lhs(r.refNoPtr(s.Ref) + "(5)")
	case "var":
		text = fmt.Sprintf("%s%s %s", varkw, s.Local, r.refNoPtr(s.Ref))
		if inFunc {
			after = append(after, "_ = "+s.Local)
		}
	case "var2":
		text = fmt.Sprintf("%s%s, %sb %s", varkw, s.Local, s.Local, r.refNoPtr(s.Ref))
		if inFunc {
			after = append(after, "_, _ = "+s.Local+", "+s.Local+"b")
		}
	case "varptr":
		if s.Ref.ViaPtr != nil {
			// (decided first: naming T would register an import the file may not need)
			text = fmt.Sprintf("%s%s %s", varkw, s.Local, r.tname(s.Ref.ViaPtr))
		} else {
			text = fmt.Sprintf("%s%s *%s", varkw, s.Local, r.refNoPtr(s.Ref))
		}
		if inFunc {
			after = append(after, "_ = "+s.Local)
		}
	case "varblank":
		text = fmt.Sprintf("%s_ %s", varkw, r.refNoPtr(s.Ref))
	case "varinit":
		text = fmt.Sprintf("%s%s %s = %s%s(%s)", varkw, s.Local, r.refNoPtr(s.Ref), r.qual(s.Fn.Pkg), s.Fn.Name, callArgs(s.Fn))
		if inFunc {
			after = append(after, "_ = "+s.Local)
		}
	case "varinfer":
		text = fmt.Sprintf("%s%s = %s%s(%s)", varkw, s.Local, r.qual(s.Fn.Pkg), s.Fn.Name, callArgs(s.Fn))
		if inFunc {
			after = append(after, "_ = "+s.Local)
		}
	case "call":
		callee := r.qual(s.Fn.Pkg) + s.Fn.Name
		if s.Fn.Generic && (s.Inst || s.ParenCallee) { // no inference through parentheses
			callee += "[int]"
		}
		if s.ParenCallee {
			callee = "(" + callee + ")"
		}
		call := fmt.Sprintf("%s(%s)", callee, callArgs(s.Fn))
		if len(s.Fn.Results) > 0 || s.Form == "pkgvar" {
			text = lhs(call)
		} else {
			text = call
		}
	case "call.arglit":
		// the parameter s.Opnd receives a fresh literal, the others their zero values
		var args []string
		for _, a := range strings.Split(callArgs(s.Fn), ", ") {
			args = append(args, a)
		}
		k := 0
		for _, pv := range s.Fn.Params {
			if pv.Ref != nil && pv.Ref.Wrap == "..." {
				continue
			}
			if pv == s.Opnd {
				args[k] = "&" + r.refNoPtr(s.Ref) + "{}"
			}
			k++
		}
		call := fmt.Sprintf("%s%s(%s)", r.qual(s.Fn.Pkg), s.Fn.Name, strings.Join(args, ", "))
		if len(s.Fn.Results) > 0 {
			text = lhs(call)
		} else {
			text = call
		}
	case "funcvalue":
		inst := ""
		if s.Fn.Generic {
			inst = "[int]" // a generic function is a value only when instantiated
		}
		text = lhs(fmt.Sprintf("%s%s%s", r.qual(s.Fn.Pkg), s.Fn.Name, inst))
	case "mcall":
		callee := o + "." + s.Fn.Name
		if s.ParenCallee {
			callee = "(" + callee + ")"
		}
		call := fmt.Sprintf("%s(%s)", callee, callArgs(s.Fn))
		if len(s.Fn.Results) > 0 {
			text = lhs(call)
		} else {
			text = call
		}
	case "mcall.chain":
		text = lhs(fmt.Sprintf("%s.%s().%s()", o, s.Fn.Name, s.Fn2.Name))
	case "mvalue":
		text = lhs(fmt.Sprintf("%s.%s", o, s.Fn.Name))
	case "mexpr":
		text = lhs(fmt.Sprintf("%s.%s", r.mexprType(s), s.Fn.Name))
	case "mexprcall":
		args := o
		if s.Fn.Recv != nil && s.Opnd.Ref != nil {
			switch {
			case !s.Fn.Recv.IsPtr() && s.Opnd.IsPtr():
				args = "*" + o
			case s.Fn.Recv.IsPtr() && !s.Opnd.IsPtr():
				args = "&" + o
			}
		}
		if a := callArgs(s.Fn); a != "" {
			args += ", " + a
		}
		call := fmt.Sprintf("%s.%s(%s)", r.mexprType(s), s.Fn.Name, args)
		if len(s.Fn.Results) > 0 {
			text = lhs(call)
		} else {
			text = call
		}
	case "decoycall":
		text = s.Aux + "()"
	case "var.composite":
		text = fmt.Sprintf("%s%s %s", varkw, s.Local, r.ref(s.Ref))
		if inFunc {
			after = append(after, "_ = "+s.Local)
		}
	case "lit.composite":
		text = lhs(r.ref(s.Ref) + "{}")
	case "decoynew":
		// a call of a local function that shadows the builtin: nothing is allocated
		text = "_ = new(" + o + ")"
	case "decoyclosure":
		r.emit("%s := func() {}", s.Aux)
		text = s.Aux + "()"
	case "raw":
		text = s.Aux
	default:
		panic("proggen: unknown site kind " + s.Kind)
	}
	return text, after
}

// mexprType renders the receiver type of a method expression for s.Fn.
func (r *renderer) mexprType(s *Site) string {
	base := r.refNoPtr(s.Ref)
	if s.Fn.Recv != nil && s.Fn.Recv.IsPtr() {
		return "(*" + base + ")"
	}
	return base
}

func callArgs(f *FuncDecl) string {
	var a []string
	if f.Generic {
		a = append(a, "0") // the value of the type parameter's own parameter
	}
	for _, p := range f.Params {
		switch {
		case p.Ref != nil && p.Ref.Wrap == "...":
			// variadic: no argument
		case p.Ref != nil && p.Ref.Wrap != "":
			a = append(a, "nil")
		case p.Ref != nil && p.Ref.Ptr:
			a = append(a, "nil")
		case p.Ref == nil && p.Basic == "":
			a = append(a, "0")
		case p.Ref != nil && p.Ref.Type.Kind == KInt:
			a = append(a, "0")
		default:
			a = append(a, "nil")
		}
	}
	return strings.Join(a, ", ")
}

// Render renders every file of the program (fills File.Lines and node lines).
func (p *Prog) Render() {
	for _, pkg := range p.Pkgs {
		for _, f := range pkg.Files {
			f.Pkg = pkg
			renderFile(f)
		}
	}
}

func renderFile(f *File) {
	r := &renderer{f: f, imports: map[*Pkg]bool{}}
	skip := 0
	for i, d := range f.Decls {
		if skip > 0 {
			skip--
			continue
		}
		if i > 0 {
			r.lines = append(r.lines, "")
		}
		switch d := d.(type) {
		case *TypeDecl:
			var members []*TypeDecl
			if d.Grouped {
				for j := i + 1; j < len(f.Decls); j++ {
					m, ok := f.Decls[j].(*TypeDecl)
					if !ok || !m.JoinPrev || m.Grouped {
						break
					}
					members = append(members, m)
				}
			}
			skip = len(members)
			r.typeDecl(d, members...)
		case *FuncDecl:
			r.funcDecl(d)
		case *VarDecl:
			r.varDecl(d)
		}
	}
	var head []string
	head = append(head, f.Head...)
	head = append(head, "package "+f.PkgName(), "")
	var imps []*Pkg
	for ip := range r.imports {
		imps = append(imps, ip)
	}
	var blanks []*Pkg
	for _, bp := range f.BlankImports {
		if !r.imports[bp] && bp != f.Pkg {
			blanks = append(blanks, bp)
		}
	}
	sort.Slice(imps, func(i, j int) bool { return imps[i].Dir < imps[j].Dir })
	if f.Unsafe {
		r.lines = append(r.lines, "", "var _ unsafe.Pointer")
	}
	if len(imps)+len(blanks) > 0 || f.Unsafe {
		head = append(head, "import (")
		if f.Unsafe {
			head = append(head, "\t\"unsafe\"")
		}
		for _, bp := range blanks {
			head = append(head, fmt.Sprintf("\t_ %q", bp.Path()))
		}
		for _, ip := range imps {
			if ip == f.DotImport {
				head = append(head, fmt.Sprintf("\t. %q", ip.Path()))
				continue
			}
			if a := f.Aliases[ip]; a != "" {
				head = append(head, fmt.Sprintf("\t%s %q", a, ip.Path()))
			} else {
				head = append(head, fmt.Sprintf("\t%q", ip.Path()))
			}
		}
		head = append(head, ")", "")
	}
	off := len(head)
	f.Lines = append(head, r.lines...)
	// shift recorded node lines by the header length
	shiftDecls(f.Decls, off)
	f.Imports = append(imps, blanks...)
}

func shiftNode(n *Node, off int) {
	if n.Start > 0 {
		n.Start += off
		n.End += off
	}
	if n.GroupEnd > 0 {
		n.GroupEnd += off
	}
}

func shiftDecls(ds []Decl, off int) {
	for _, d := range ds {
		shiftNode(d.declNode(), off)
		switch d := d.(type) {
		case *FuncDecl:
			shiftStmts(d.Body, off)
			if d.RetSite != nil {
				shiftNode(&d.RetSite.Node, off)
			}
		case *VarDecl:
			if d.Closure != nil {
				shiftStmts(d.Closure.Body, off)
			}
			if d.Site != nil {
				shiftNode(&d.Site.Node, off)
			}
			if d.Site2 != nil {
				shiftNode(&d.Site2.Node, off)
			}
		}
	}
}

func shiftStmts(ss []Stmt, off int) {
	for _, s := range ss {
		shiftNode(s.stmtNode(), off)
		if w, ok := s.(*Wrap); ok {
			shiftStmts(w.Body, off)
		}
		if o, ok := s.(*OneLiner); ok {
			for _, x := range o.Sites {
				shiftNode(&x.Node, off)
			}
		}
	}
}

var tagRe = regexp.MustCompile(`(?://|/\*) s(\d+)\b`)

// TagAtCol returns the tag that belongs to a diagnostic at (line, col): on a
// line with several inline tags (`a /* s1 */; b /* s2 */`) the first tag that
// starts after the column; otherwise the line's only tag.
func TagAtCol(lines []string, line, col int) int {
	if line < 1 || line > len(lines) {
		return 0
	}
	ms := tagRe.FindAllStringSubmatchIndex(lines[line-1], -1)
	if len(ms) == 0 {
		return 0
	}
	pick := ms[len(ms)-1]
	if len(ms) > 1 {
		for _, m := range ms {
			if m[0]+1 > col {
				pick = m
				break
			}
		}
	}
	n, _ := strconv.Atoi(lines[line-1][pick[2]:pick[3]])
	return n
}

// TagAt returns the site id tagged on the given 1-based line of src (0 if none).
func TagAt(lines []string, line int) int {
	if line < 1 || line > len(lines) {
		return 0
	}
	m := tagRe.FindStringSubmatch(lines[line-1])
	if m == nil {
		return 0
	}
	n, _ := strconv.Atoi(m[1])
	return n
}
