package proggen

import (
	"fmt"
	"go/format"
	"strings"

	"pgregory.net/rapid"
)

// Layout transformations for C12. Each mutates the model (or the rendered
// text for gofmt) and returns a label plus whether it did one of the things
// the property singles out (reordering, moving to another file, un-shadowing).

type TransformInfo struct {
	Label      string
	Reordered  bool
	Moved      bool
	Renamed    bool
	Unshadowed bool
}

func regularFiles(pkg *Pkg) []*File {
	var out []*File
	for _, f := range pkg.Files {
		if f.Kind == FileRegular {
			out = append(out, f)
		}
	}
	return out
}

// PermuteDecls shuffles the top-level declarations of one file.
func PermuteDecls(t *rapid.T, p *Prog) TransformInfo {
	var files []*File
	for _, pkg := range p.Pkgs {
		for _, f := range pkg.Files {
			if len(f.Decls) >= 2 {
				files = append(files, f)
			}
		}
	}
	if len(files) == 0 {
		return TransformInfo{Label: "permute(noop)"}
	}
	f := files[rapid.IntRange(0, len(files)-1).Draw(t, "permFile")]
	f.Decls = rapid.Permutation(f.Decls).Draw(t, "permDecls")
	return TransformInfo{Label: "permute-decls", Reordered: true}
}

// MoveDecl moves one declaration to another regular file of the same package
// (possibly a new one).
func MoveDecl(t *rapid.T, p *Prog) TransformInfo {
	pkg := p.Pkgs[rapid.IntRange(0, len(p.Pkgs)-1).Draw(t, "movePkg")]
	regs := regularFiles(pkg)
	var src []*File
	for _, f := range regs {
		if len(f.Decls) > 0 {
			src = append(src, f)
		}
	}
	if len(src) == 0 {
		return TransformInfo{Label: "move(noop)"}
	}
	from := src[rapid.IntRange(0, len(src)-1).Draw(t, "moveFrom")]
	i := rapid.IntRange(0, len(from.Decls)-1).Draw(t, "moveDecl")
	d := from.Decls[i]
	var to *File
	if len(regs) < 3 && rapid.Bool().Draw(t, "newFile") || len(regs) == 1 {
		name := fmt.Sprintf("f%d.go", len(regs)+3)
		if rapid.Bool().Draw(t, "newFileSortsFirst") {
			name = fmt.Sprintf("a%d.go", len(regs)+3) // before f0.go: the files of a package are visited in name order
		}
		to = &File{Name: name, Kind: FileRegular, Pkg: pkg, Aliases: map[*Pkg]string{}}
		for k, v := range from.Aliases {
			to.Aliases[k] = v
		}
		pkg.Files = append(pkg.Files, to)
	} else {
		var others []*File
		for _, f := range regs {
			if f != from {
				others = append(others, f)
			}
		}
		to = others[rapid.IntRange(0, len(others)-1).Draw(t, "moveTo")]
	}
	from.Decls = append(append([]Decl{}, from.Decls[:i]...), from.Decls[i+1:]...)
	j := rapid.IntRange(0, len(to.Decls)).Draw(t, "movePos")
	nd := append([]Decl{}, to.Decls[:j]...)
	nd = append(nd, d)
	nd = append(nd, to.Decls[j:]...)
	to.Decls = nd
	return TransformInfo{Label: "move-decl", Moved: true, Reordered: true}
}

// RenameFile renames a regular file so that it sorts before or after its
// siblings: the same declarations, visited in another file order.
func RenameFile(t *rapid.T, p *Prog) TransformInfo {
	pkg := p.Pkgs[rapid.IntRange(0, len(p.Pkgs)-1).Draw(t, "renPkg")]
	regs := regularFiles(pkg)
	if len(regs) < 2 {
		return TransformInfo{Label: "rename-file(noop)"}
	}
	f := regs[rapid.IntRange(0, len(regs)-1).Draw(t, "renFile")]
	prefix := rapid.SampledFrom([]string{"a_", "zz_"}).Draw(t, "renPrefix")
	if strings.HasPrefix(f.Name, "a_") || strings.HasPrefix(f.Name, "zz_") {
		return TransformInfo{Label: "rename-file(noop)"}
	}
	f.Name = prefix + f.Name
	return TransformInfo{Label: "rename-file", Moved: true, Reordered: true}
}

// InsertLayout adds blank lines and ordinary comments before random nodes.
func InsertLayout(t *rapid.T, p *Prog) TransformInfo {
	n := 0
	comments := []string{"// note: see the design document", "// TODO tidy this up", "// mentions @immutable and @ignore-like words mid sentence", "//nolint:all"}
	visit := func(nd *Node) {
		if rapid.IntRange(0, 9).Draw(t, "layoutHere") < 3 {
			nd.BlankBefore = rapid.IntRange(0, 2).Draw(t, "blank")
			if rapid.Bool().Draw(t, "comment") {
				nd.Before = append(nd.Before, comments[rapid.IntRange(0, len(comments)-1).Draw(t, "cmt")])
			}
			n++
		}
	}
	for _, pkg := range p.Pkgs {
		for _, f := range pkg.Files {
			for _, d := range f.Decls {
				visit(d.declNode())
				switch d := d.(type) {
				case *FuncDecl:
					visitStmts(d.Body, visit)
				case *VarDecl:
					if d.Closure != nil {
						visitStmts(d.Closure.Body, visit)
					}
				}
			}
		}
	}
	return TransformInfo{Label: fmt.Sprintf("insert-layout(%d)", n)}
}

func visitStmts(ss []Stmt, visit func(*Node)) {
	for _, s := range ss {
		visit(s.stmtNode())
		if w, ok := s.(*Wrap); ok {
			visitStmts(w.Body, visit)
		}
	}
}

// RenameLocals consistently renames parameters, receivers and locals to
// fresh names.
func RenameLocals(t *rapid.T, p *Prog) TransformInfo {
	info := TransformInfo{Label: "rename-locals", Renamed: true}
	p.renameGen++
	gen := p.renameGen
	fresh := func() string { p.renameSeq++; return fmt.Sprintf("q%d", p.renameSeq) }
	renameVar := func(v *Var) {
		if v == nil || v.renamed == gen {
			return
		}
		if v.Shadow {
			info.Unshadowed = true
		}
		v.Name = fresh()
		v.renamed = gen
	}
	var doStmts func(ss []Stmt)
	doStmts = func(ss []Stmt) {
		for _, s := range ss {
			switch s := s.(type) {
			case *Site:
				if s.LocalVar != nil {
					renameVar(s.LocalVar)
				} else if s.Local != "" && s.Form != "pkgvar" {
					s.Local = fresh()
				}
			case *Wrap:
				for _, pv := range s.Params {
					renameVar(pv)
				}
				doStmts(s.Body)
			}
		}
	}
	for _, pkg := range p.Pkgs {
		for _, f := range pkg.Files {
			for _, d := range f.Decls {
				switch d := d.(type) {
				case *FuncDecl:
					renameVar(d.Recv)
					for _, pv := range d.Params {
						renameVar(pv)
					}
					doStmts(d.Body)
				case *VarDecl:
					if d.Closure != nil {
						for _, pv := range d.Closure.Params {
							renameVar(pv)
						}
						doStmts(d.Closure.Body)
					}
				}
			}
		}
	}
	return info
}

// Gofmt reformats every rendered file with go/format. Must be applied after
// Render (it works on text); returns false if formatting failed.
func Gofmt(p *Prog) error {
	for _, pkg := range p.Pkgs {
		for _, f := range pkg.Files {
			src := strings.Join(f.Lines, "\n") + "\n"
			out, err := format.Source([]byte(src))
			if err != nil {
				return fmt.Errorf("%s/%s: %v", pkg.Dir, f.Name, err)
			}
			f.Lines = strings.Split(strings.TrimSuffix(string(out), "\n"), "\n")
		}
	}
	return nil
}

// ---------------------------------------------------------------------------
// C13: respelling of use-site type expressions into identical types

type RespellInfo struct {
	LocalAlias, ThirdPkgAlias, Paren, ImportRename, Recv, FuncLocalAlias, AliasChain, PtrAlias int
	FuncLocalSites                                                                             []int        // sites whose mention goes through an alias declared right before them
	Sites                                                                                      map[int]bool // site ids whose spelling changed
}

// allRefs lists every type mention that may be respelled, with the file and
// site id it belongs to and whether parentheses are syntactically allowed.
type refSlot struct {
	ref     *TypeRef
	file    *File
	site    int
	parenOK bool
	aliasOK bool
	recv    bool // a method receiver: parentheses and local aliases only
	ptrVar  bool // var x *T: the pointer type as a whole can be named by an alias
	inBody  bool // a statement inside a function body: a function-local alias can be declared right before it
}

func (p *Prog) refSlots() []refSlot {
	var out []refSlot
	p.Walk(func(si SiteInfo) {
		s := si.Site
		if s.Ref == nil || s.Type == nil {
			return
		}
		slot := refSlot{ref: s.Ref, file: si.Ctx.File, site: s.ID, aliasOK: true, ptrVar: s.Kind == "varptr"}
		switch s.Kind {
		case "lit", "litptr", "new", "var", "var2", "varptr", "varblank", "elided.slice", "elided.ptrslice", "elided.map", "conv", "var.composite", "lit.composite":
			slot.inBody = si.Ctx.Func != nil && s.Form != "pkgvar" && s.Form != "return"
		}
		switch s.Kind {
		case "param", "result", "field", "var", "var2", "varptr", "varblank", "varinit", "new", "conv":
			slot.parenOK = true
		case "recv":
			// func (r *(T)) / (r (*T)) / (r *LocalAlias): the method's own annotations are
			// attributed through the receiver's spelling, which is the declaration side
			// of things, not a use site - only unannotated methods are respelled
			if fn := si.Ctx.Func; fn == nil || fn.TestOnly || fn.PackageOnly != nil {
				return
			}
			slot.parenOK, slot.recv = true, true
		case "embedded", "typedecl":
			return // embedded fields keep their spelling
		}
		out = append(out, slot)
	})
	return out
}

// Respell rewrites a random subset of type mentions through aliases declared
// in a new file of the using package or in a new third package, through added
// parentheses, and renames imports of some files.
func Respell(t *rapid.T, p *Prog) RespellInfo {
	info := RespellInfo{Sites: map[int]bool{}}
	slots := p.refSlots()
	localAlias := map[*Pkg]map[*TypeDecl]*TypeDecl{}
	thirdAlias := map[*TypeDecl]*TypeDecl{}
	aliasFile := map[*Pkg]*File{}
	thirdPkg := map[*Pkg]*Pkg{}
	getLocal := func(user *Pkg, td *TypeDecl) *TypeDecl {
		if localAlias[user] == nil {
			localAlias[user] = map[*TypeDecl]*TypeDecl{}
		}
		if a := localAlias[user][td]; a != nil {
			return a
		}
		f := aliasFile[user]
		if f == nil {
			f = &File{Name: "zalias.go", Kind: FileRegular, Pkg: user, Aliases: map[*Pkg]string{}}
			applyDupAliases(p, f)
			aliasFile[user] = f
			user.Files = append(user.Files, f)
		}
		a := &TypeDecl{ID: p.NewID(), Name: fmt.Sprintf("Al%s_%d", td.Name, len(f.Decls)), Pkg: user, Kind: td.Kind, AliasOf: &TypeRef{Type: td}}
		f.Decls = append(f.Decls, a)
		if rapid.IntRange(0, 9).Draw(t, "aliasChain") < 3 {
			// an alias of the alias: type AlAlT = AlT
			b := &TypeDecl{ID: p.NewID(), Name: fmt.Sprintf("AlAl%s_%d", td.Name, len(f.Decls)), Pkg: user, Kind: td.Kind, AliasOf: &TypeRef{Type: td, Via: a}}
			f.Decls = append(f.Decls, b)
			a = b
			info.AliasChain++
		}
		localAlias[user][td] = a
		return a
	}
	ptrAlias := map[*Pkg]map[*TypeDecl]*TypeDecl{}
	getLocalPtr := func(user *Pkg, td *TypeDecl) *TypeDecl {
		if a := ptrAlias[user][td]; a != nil {
			return a
		}
		getLocal(user, td) // makes sure the alias file exists
		f := aliasFile[user]
		a := &TypeDecl{ID: p.NewID(), Name: fmt.Sprintf("PAl%s_%d", td.Name, len(f.Decls)), Pkg: user, Kind: td.Kind, AliasOf: &TypeRef{Type: td, Ptr: true}}
		f.Decls = append(f.Decls, a)
		if ptrAlias[user] == nil {
			ptrAlias[user] = map[*TypeDecl]*TypeDecl{}
		}
		ptrAlias[user][td] = a
		return a
	}
	getThird := func(td *TypeDecl) *TypeDecl {
		if a := thirdAlias[td]; a != nil {
			return a
		}
		tp := thirdPkg[td.Pkg]
		if tp == nil {
			tp = &Pkg{Dir: "al" + strings.NewReplacer("/", "", "-", "", ".", "").Replace(td.Pkg.Dir), Name: fmt.Sprintf("al%s%d", td.Pkg.Name, td.Pkg.Idx), Idx: 100 + td.Pkg.Idx}
			tp.Files = []*File{{Name: "f0.go", Kind: FileRegular, Pkg: tp, Aliases: map[*Pkg]string{}}}
			applyDupAliases(p, tp.Files[0])
			thirdPkg[td.Pkg] = tp
			// insert right after the declaring package (dependency order)
			var np []*Pkg
			for _, q := range p.Pkgs {
				np = append(np, q)
				if q == td.Pkg {
					np = append(np, tp)
				}
			}
			p.Pkgs = np
		}
		f := tp.Files[0]
		a := &TypeDecl{ID: p.NewID(), Name: fmt.Sprintf("Al%s_%d", td.Name, len(f.Decls)), Pkg: tp, Kind: td.Kind, AliasOf: &TypeRef{Type: td}}
		f.Decls = append(f.Decls, a)
		if rapid.IntRange(0, 9).Draw(t, "thirdAliasChain") < 3 {
			b := &TypeDecl{ID: p.NewID(), Name: fmt.Sprintf("AlAl%s_%d", td.Name, len(f.Decls)), Pkg: tp, Kind: td.Kind, AliasOf: &TypeRef{Type: td, Via: a}}
			f.Decls = append(f.Decls, b)
			a = b
			info.AliasChain++
		}
		thirdAlias[td] = a
		return a
	}
	for _, sl := range slots {
		if sl.ref.Via != nil {
			continue
		}
		user := sl.file.Pkg
		if sl.file.Kind != FileRegular {
			continue
		}
		if sl.recv {
			switch rapid.IntRange(0, 9).Draw(t, "respellRecv") {
			case 0, 1:
				sl.ref.Via = getLocal(user, sl.ref.Type)
				info.LocalAlias++
				info.Recv++
				info.Sites[sl.site] = true
			case 2, 3:
				sl.ref.Paren = true
				info.Paren++
				info.Recv++
				info.Sites[sl.site] = true
			case 4:
				if sl.ref.Ptr {
					sl.ref.ParenAll = true
					info.Paren++
					info.Recv++
					info.Sites[sl.site] = true
				}
			}
			continue
		}
		switch rapid.IntRange(0, 9).Draw(t, "respell") {
		case 5:
			// type PAl = *T: the pointer type itself behind an alias (var x PAl declares a pointer)
			if (sl.ref.Ptr && sl.ref.Wrap == "" && !sl.ref.ParenAll && !sl.ref.Paren) || sl.ptrVar {
				sl.ref.ViaPtr = getLocalPtr(user, sl.ref.Type)
				info.LocalAlias++
				info.PtrAlias++
				info.Sites[sl.site] = true
			}
		case 4:
			if sl.inBody {
				// type lAlN = pkg.T declared in the function body right before the statement
				sl.ref.Via = &TypeDecl{ID: p.NewID(), Name: fmt.Sprintf("lAl%d", sl.site), Pkg: user, Kind: sl.ref.Type.Kind, AliasOf: &TypeRef{Type: sl.ref.Type}, FuncLocal: true}
				info.FuncLocalAlias++
				info.FuncLocalSites = append(info.FuncLocalSites, sl.site)
				info.Sites[sl.site] = true
			}
		case 0, 1:
			sl.ref.Via = getLocal(user, sl.ref.Type)
			info.LocalAlias++
			info.Sites[sl.site] = true
		case 2:
			if sl.ref.Type.Pkg != user {
				sl.ref.Via = getThird(sl.ref.Type)
				// the using package must still import the declaring package directly
				sl.file.BlankImports = append(sl.file.BlankImports, sl.ref.Type.Pkg)
				info.ThirdPkgAlias++
				info.Sites[sl.site] = true
			}
		case 3:
			if sl.parenOK {
				sl.ref.Paren = true
				info.Paren++
				info.Sites[sl.site] = true
			}
		}
	}
	// rename imports of some files
	for _, pkg := range p.Pkgs {
		for _, f := range pkg.Files {
			for _, ip := range f.Imports {
				if rapid.IntRange(0, 9).Draw(t, "renameImport") < 2 {
					if f.Aliases[ip] == "" {
						f.Aliases[ip] = fmt.Sprintf("ri%s%d", ip.Name, ip.Idx)
					} else if !dupName(p, ip) {
						f.Aliases[ip] = ""
					}
					info.ImportRename++
				}
			}
		}
	}
	return info
}

// ---------------------------------------------------------------------------
// C09: near-miss comments on a program without annotations

var nearMissLines = []string{
	"// see the @immutable and @constructor New docs; this type is not @testonly",
	"// TODO: add @packageonly later, and @implements io.Reader",
	"// @Immutable",
	"// @IMMUTABLE",
	"// @immutablex",
	"// @constructors New",
	"// @testonlyish",
	"// @ immutable",
	"// @ constructor New",
	"//@Constructor New",
	"/* @immutable */",
	"/* @constructor New */",
	"/* @testonly */",
	"/*\n@packageonly\n*/",
	"/*\nExample:\n\n\t// @immutable\n\t// @constructor New\n\ttype P struct{}\n*/", // quoted example code inside a block doc comment
	"/*\n// @testonly\n// @packageonly\n*/",
	"/* text\n   // @immutable */",
	"// @immutable-by-convention: nothing enforces it", // keyword as prefix of a hyphenated word
	"// @testonly/@packageonly are not used here",
	"// @immutable: see the docs",
	"// @testonly-looking, but prose",
	"// @constructor-like helpers: New",
	"// @packageonly.internal",
	"// @mutable",     // inert on a type / on a field of a struct that is not @immutable
	"// @constructor", // no names: documented as not recognised
	"// @constructor 9lives",
	"// @implements",
	"// x @immutable",
	"// -@testonly",
	"// @packageonlyy a, b",
	"// @ignoreX IMM01",
	"// @Ignore ALL",
	"// // @immutable", // commented-out annotation
	"//// @testonly",
	"/// @immutable",
	"// // @constructor New",
	"//\t// @packageonly",
	"// /@immutable",
	"// * @immutable",
	"// - @testonly",
	"// > @constructor New",
}

// annotation lines that ARE well-formed; only usable at inert attachment sites
var wellFormedAnnots = []string{"// @immutable", "// @constructor New", "// @testonly", "// @packageonly", "// @packageonly zz", "// @implements Stringer", "// @mutable"}

type SaltInfo struct {
	DocNearMiss, Trailing, Detached, Local, FieldDoc, VarDoc int
}

// SaltNearMiss sprinkles comments that mention the annotation keywords without
// being annotations: malformed lines as doc comments, well-formed lines at
// attachment sites that are inert (trailing comments, comments detached from
// the declaration by a blank line, local declarations, package-level var
// declarations, struct fields of unannotated types).
func SaltNearMiss(t *rapid.T, p *Prog) SaltInfo {
	var info SaltInfo
	pick := func(pool []string, label string) string {
		return pool[rapid.IntRange(0, len(pool)-1).Draw(t, label)]
	}
	chance := func(label string, pct int) bool { return rapid.IntRange(0, 99).Draw(t, label) < pct }
	localSeq := 0
	var saltBody func(body []Stmt) []Stmt
	saltBody = func(body []Stmt) []Stmt {
		var out []Stmt
		for _, s := range body {
			if chance("localDecl", 12) {
				localSeq++
				n := fmt.Sprintf("loc%d", localSeq)
				out = append(out,
					&Filler{Text: pick(wellFormedAnnots, "localAnnot")},
					&Filler{Text: fmt.Sprintf("type %sT struct{ X int }", n)},
					&Filler{Text: fmt.Sprintf("var %s %sT", n, n)},
					&Filler{Text: fmt.Sprintf("%s.X = 1", n)},
					&Filler{Text: fmt.Sprintf("_ = %sT{}", n)},
					&Filler{Text: fmt.Sprintf("_ = %s", n)})
				info.Local++
			}
			if w, ok := s.(*Wrap); ok {
				w.Body = saltBody(w.Body)
			}
			if chance("stmtTrailing", 10) {
				s.stmtNode().Trailing = pick(wellFormedAnnots, "stmtTrailAnnot")
				info.Trailing++
			}
			out = append(out, s)
		}
		return out
	}
	for _, pkg := range p.Pkgs {
		for _, f := range pkg.Files {
			for _, d := range f.Decls {
				switch d := d.(type) {
				case *TypeDecl:
					if chance("typeDoc", 60) {
						n := rapid.IntRange(1, 3).Draw(t, "nDoc")
						for i := 0; i < n; i++ {
							d.ExtraDoc = append(d.ExtraDoc, strings.Split(pick(nearMissLines, "docLine"), "\n")...)
						}
						info.DocNearMiss++
					}
					if chance("typeTrailing", 25) {
						d.Trailing = pick(wellFormedAnnots, "typeTrailAnnot")
						info.Trailing++
					}
					if chance("typeDetached", 25) {
						d.Before = append(d.Before, pick(wellFormedAnnots, "detachedAnnot"), "")
						info.Detached++
					}
					for _, fl := range d.Fields {
						if chance("fieldDoc", 25) {
							fl.Doc = append(fl.Doc, pick(wellFormedAnnots, "fieldAnnot"))
							info.FieldDoc++
						}
					}
				case *FuncDecl:
					if chance("funcDoc", 40) {
						// @immutable / @constructor / @implements / @mutable mean nothing on a function;
						// @testonly / @packageonly would, so only malformed spellings of those
						d.ExtraDoc = append(d.ExtraDoc, pick([]string{"// @immutable", "// @constructor New", "// @implements Stringer", "// @mutable", "// @Testonly", "// @testonlyx", "/* @testonly */", "// @ packageonly", "// see @testonly", "// @PackageOnly a", "// // @testonly", "//// @testonly", "/// @packageonly", "// /@testonly"}, "funcDocLine"))
						info.DocNearMiss++
					}
					if chance("funcDetached", 20) {
						d.Before = append(d.Before, pick([]string{"// @testonly", "// @packageonly", "// @packageonly zz"}, "funcDetachedAnnot"), "")
						info.Detached++
					}
					d.Body = saltBody(d.Body)
				case *VarDecl:
					if chance("varDoc", 50) {
						d.Before = append(d.Before, pick(wellFormedAnnots, "varAnnot"))
						info.VarDoc++
					}
					if d.Closure != nil {
						d.Closure.Body = saltBody(d.Closure.Body)
					}
				}
			}
		}
	}
	return info
}

// dupName: another package of the program declares the same package name.
func dupName(p *Prog, pk *Pkg) bool {
	for _, q := range p.Pkgs {
		if q != pk && q.Name == pk.Name {
			return true
		}
	}
	return false
}

// applyDupAliases gives a new file explicit aliases for packages whose
// declared name is not unique in the program.
func applyDupAliases(p *Prog, f *File) {
	for _, pk := range p.Pkgs {
		if dupName(p, pk) && f.Aliases[pk] == "" {
			f.Aliases[pk] = fmt.Sprintf("%s%d", pk.Name, pk.Idx)
		}
	}
}

// RespellValuePointer switches value <-> pointer where the property families
// treat both alike: parameters of functions nobody calls and of package-level
// closures, literals `_ = T{}` <-> `_ = &T{}`, named struct fields T <-> *T.
// (Not `var x T` <-> `var x *T`, which C02 defines as different.)
func RespellValuePointer(t *rapid.T, p *Prog) (n int, sites map[int]bool) {
	sites = map[int]bool{}
	flip := func(label string) bool { return rapid.IntRange(0, 9).Draw(t, label) < 3 }
	flipVar := func(v *Var) {
		if v == nil || v.Ref == nil || v.Ref.Via != nil || v.CallOf != nil || v.Shadow {
			return
		}
		if v.Ref.Type.Kind != KStruct {
			return // nil is not a value of a named int; keep call sites valid
		}
		if flip("flipParam") {
			v.Ref.Ptr = !v.Ref.Ptr
			n++
			sites[v.ID] = true
		}
	}
	var doStmts func(ss []Stmt)
	doStmts = func(ss []Stmt) {
		for _, s := range ss {
			switch s := s.(type) {
			case *Site:
				if s.Form == "" && (s.Kind == "lit" || s.Kind == "litptr") && flip("flipLit") {
					if s.Kind == "lit" {
						s.Kind = "litptr"
					} else {
						s.Kind = "lit"
					}
					n++
					sites[s.ID] = true
				}
			case *OneLiner:
				for _, x := range s.Sites {
					doStmts([]Stmt{x})
				}
			case *Wrap:
				doStmts(s.Body)
			}
		}
	}
	for _, pkg := range p.Pkgs {
		for _, f := range pkg.Files {
			for _, d := range f.Decls {
				switch d := d.(type) {
				case *TypeDecl:
					for _, fl := range d.Fields {
						if fl.Ref != nil && !fl.Embedded && fl.Ref.Via == nil && flip("flipField") {
							// a struct cannot contain itself by value
							if fl.Ref.Ptr && fl.Ref.Type == d {
								continue
							}
							fl.Ref.Ptr = !fl.Ref.Ptr
							fl.Ptr = fl.Ref.Ptr
							n++
							sites[fl.ID] = true
						}
					}
				case *FuncDecl:
					if !d.called && !d.IsListedConstructor(p) {
						for _, pv := range d.Params {
							flipVar(pv)
						}
					}
					doStmts(d.Body)
				case *VarDecl:
					if d.Closure != nil {
						for _, pv := range d.Closure.Params {
							flipVar(pv)
						}
						doStmts(d.Closure.Body)
					}
				}
			}
		}
	}
	return
}

// IsListedConstructor: some type of the function's package lists it in @constructor.
func (f *FuncDecl) IsListedConstructor(p *Prog) bool {
	for _, t := range p.AllTypes() {
		if t.Pkg == f.Pkg && t.IsCtor(f.Name) {
			return true
		}
	}
	return false
}
