package proggen

import (
	"fmt"
	"go/format"
	"strings"

	"pgregory.net/rapid"
)

// Layout transformations for C12. Each mutates the model (or the rendered
// text for gofmt) and returns a label plus whether it did one of the things
// the property singles out (reordering, moving to another file, un-shadowing).

type TransformInfo struct {
	Label      string
	Reordered  bool
	Moved      bool
	Renamed    bool
	Unshadowed bool
}

func regularFiles(pkg *Pkg) []*File {
	var out []*File
	for _, f := range pkg.Files {
		if f.Kind == FileRegular {
			out = append(out, f)
		}
	}
	return out
}

// PermuteDecls shuffles the top-level declarations of one file.
func PermuteDecls(t *rapid.T, p *Prog) TransformInfo {
	var files []*File
	for _, pkg := range p.Pkgs {
		for _, f := range pkg.Files {
			if len(f.Decls) >= 2 {
				files = append(files, f)
			}
		}
	}
	if len(files) == 0 {
		return TransformInfo{Label: "permute(noop)"}
	}
	f := files[rapid.IntRange(0, len(files)-1).Draw(t, "permFile")]
	f.Decls = rapid.Permutation(f.Decls).Draw(t, "permDecls")
	return TransformInfo{Label: "permute-decls", Reordered: true}
}

// MoveDecl moves one declaration to another regular file of the same package
// (possibly a new one).
func MoveDecl(t *rapid.T, p *Prog) TransformInfo {
	pkg := p.Pkgs[rapid.IntRange(0, len(p.Pkgs)-1).Draw(t, "movePkg")]
	regs := regularFiles(pkg)
	var src []*File
	for _, f := range regs {
		if len(f.Decls) > 0 {
			src = append(src, f)
		}
	}
	if len(src) == 0 {
		return TransformInfo{Label: "move(noop)"}
	}
	from := src[rapid.IntRange(0, len(src)-1).Draw(t, "moveFrom")]
	i := rapid.IntRange(0, len(from.Decls)-1).Draw(t, "moveDecl")
	d := from.Decls[i]
	var to *File
	if len(regs) < 3 && rapid.Bool().Draw(t, "newFile") || len(regs) == 1 {
		to = &File{Name: fmt.Sprintf("f%d.go", len(regs)+3), Kind: FileRegular, Pkg: pkg, Aliases: map[*Pkg]string{}}
		for k, v := range from.Aliases {
			to.Aliases[k] = v
		}
		pkg.Files = append(pkg.Files, to)
	} else {
		var others []*File
		for _, f := range regs {
			if f != from {
				others = append(others, f)
			}
		}
		to = others[rapid.IntRange(0, len(others)-1).Draw(t, "moveTo")]
	}
	from.Decls = append(append([]Decl{}, from.Decls[:i]...), from.Decls[i+1:]...)
	j := rapid.IntRange(0, len(to.Decls)).Draw(t, "movePos")
	nd := append([]Decl{}, to.Decls[:j]...)
	nd = append(nd, d)
	nd = append(nd, to.Decls[j:]...)
	to.Decls = nd
	return TransformInfo{Label: "move-decl", Moved: true, Reordered: true}
}

// InsertLayout adds blank lines and ordinary comments before random nodes.
func InsertLayout(t *rapid.T, p *Prog) TransformInfo {
	n := 0
	comments := []string{"// note: see the design document", "// TODO tidy this up", "// mentions @immutable and @ignore-like words mid sentence", "//nolint:all"}
	visit := func(nd *Node) {
		if rapid.IntRange(0, 9).Draw(t, "layoutHere") < 3 {
			nd.BlankBefore = rapid.IntRange(0, 2).Draw(t, "blank")
			if rapid.Bool().Draw(t, "comment") {
				nd.Before = append(nd.Before, comments[rapid.IntRange(0, len(comments)-1).Draw(t, "cmt")])
			}
			n++
		}
	}
	for _, pkg := range p.Pkgs {
		for _, f := range pkg.Files {
			for _, d := range f.Decls {
				visit(d.declNode())
				switch d := d.(type) {
				case *FuncDecl:
					visitStmts(d.Body, visit)
				case *VarDecl:
					if d.Closure != nil {
						visitStmts(d.Closure.Body, visit)
					}
				}
			}
		}
	}
	return TransformInfo{Label: fmt.Sprintf("insert-layout(%d)", n)}
}

func visitStmts(ss []Stmt, visit func(*Node)) {
	for _, s := range ss {
		visit(s.stmtNode())
		if w, ok := s.(*Wrap); ok {
			visitStmts(w.Body, visit)
		}
	}
}

// RenameLocals consistently renames parameters, receivers and locals to
// fresh names.
func RenameLocals(t *rapid.T, p *Prog) TransformInfo {
	info := TransformInfo{Label: "rename-locals", Renamed: true}
	p.renameGen++
	gen := p.renameGen
	fresh := func() string { p.renameSeq++; return fmt.Sprintf("q%d", p.renameSeq) }
	renameVar := func(v *Var) {
		if v == nil || v.renamed == gen {
			return
		}
		if v.Shadow {
			info.Unshadowed = true
		}
		v.Name = fresh()
		v.renamed = gen
	}
	var doStmts func(ss []Stmt)
	doStmts = func(ss []Stmt) {
		for _, s := range ss {
			switch s := s.(type) {
			case *Site:
				if s.LocalVar != nil {
					renameVar(s.LocalVar)
				} else if s.Local != "" && s.Form != "pkgvar" {
					s.Local = fresh()
				}
			case *Wrap:
				for _, pv := range s.Params {
					renameVar(pv)
				}
				doStmts(s.Body)
			}
		}
	}
	for _, pkg := range p.Pkgs {
		for _, f := range pkg.Files {
			for _, d := range f.Decls {
				switch d := d.(type) {
				case *FuncDecl:
					renameVar(d.Recv)
					for _, pv := range d.Params {
						renameVar(pv)
					}
					doStmts(d.Body)
				case *VarDecl:
					if d.Closure != nil {
						for _, pv := range d.Closure.Params {
							renameVar(pv)
						}
						doStmts(d.Closure.Body)
					}
				}
			}
		}
	}
	return info
}

// Gofmt reformats every rendered file with go/format. Must be applied after
// Render (it works on text); returns false if formatting failed.
func Gofmt(p *Prog) error {
	for _, pkg := range p.Pkgs {
		for _, f := range pkg.Files {
			src := strings.Join(f.Lines, "\n") + "\n"
			out, err := format.Source([]byte(src))
			if err != nil {
				return fmt.Errorf("%s/%s: %v", pkg.Dir, f.Name, err)
			}
			f.Lines = strings.Split(strings.TrimSuffix(string(out), "\n"), "\n")
		}
	}
	return nil
}
