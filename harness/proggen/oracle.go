package proggen

import (
	"fmt"
	"sort"
	"strings"

	"verif/harness/engine"
)

// Event is one category-relevant fact about a site, derived from its kind.
type Event struct {
	Cat      string // IMM | CTOR | CALL | REF | MCALL | MREF | MENTION
	Code     string // for IMM / CTOR
	Type     *TypeDecl
	Field    *Field
	Fn       *FuncDecl
	Mention  string // lit | var | field | param | result | recv | embedded | other
	RecvForm bool
	Ptr      bool
	Open     bool // the property statement leaves this shape open: tolerated, never required
	Elided   bool // the type is not written at the site (elided element literal of a named container)
	Promoted bool // method reached through an embedded field of the operand's type
}

// Events lists what the site does, independent of any annotation.
func (s *Site) Events() []Event {
	var ev []Event
	mention := func(kind string) {
		if s.Type != nil {
			ptr := s.Ref != nil && s.Ref.Ptr
			ev = append(ev, Event{Cat: "MENTION", Type: s.Type, Mention: kind, Ptr: ptr})
		}
	}
	switch s.Kind {
	case "imm.assign", "imm.assignparen", "imm.tuple", "imm.nested":
		ev = append(ev, Event{Cat: "IMM", Code: "IMM01", Type: s.Type, Field: s.Field})
	case "imm.tuple2":
		ev = append(ev, Event{Cat: "IMM", Code: "IMM01", Type: s.Type, Field: s.Field})
		ev = append(ev, Event{Cat: "IMM", Code: "IMM01", Type: s.Type, Field: s.Field2})
	case "imm.compound":
		ev = append(ev, Event{Cat: "IMM", Code: "IMM02", Type: s.Type, Field: s.Field})
	case "imm.incdec":
		ev = append(ev, Event{Cat: "IMM", Code: "IMM03", Type: s.Type, Field: s.Field})
	case "imm.index":
		ev = append(ev, Event{Cat: "IMM", Code: "IMM04", Type: s.Type, Field: s.Field})
	case "imm.recvassign":
		ev = append(ev, Event{Cat: "IMM", Code: "IMM01", Type: s.Type, RecvForm: true})
		if s.Type.Kind != KInt {
			ev = append(ev, Event{Cat: "CTOR", Code: "CTOR01", Type: s.Type})
			mention("lit")
		}
	case "imm.recvincdec":
		ev = append(ev, Event{Cat: "IMM", Code: "IMM03", Type: s.Type, RecvForm: true})
	case "ptr.assign":
		// overwrite through a pointer that is not the receiver: the statement
		// lists only receiver overwrites, so for an immutable type this is open
		ev = append(ev, Event{Cat: "IMM", Code: "IMM01", Type: s.Type, Open: true})
		ev = append(ev, Event{Cat: "CTOR", Code: "CTOR01", Type: s.Type})
		mention("lit")
	case "lit", "litptr", "elided.slice", "elided.ptrslice", "elided.map":
		ev = append(ev, Event{Cat: "CTOR", Code: "CTOR01", Type: s.Type})
		mention("lit")
	case "lit.nested":
		// T{In: U{}}: two instantiations on one line
		ev = append(ev, Event{Cat: "CTOR", Code: "CTOR01", Type: s.Type})
		mention("lit")
		ev = append(ev, Event{Cat: "CTOR", Code: "CTOR01", Type: s.Field.Type})
		ev = append(ev, Event{Cat: "MENTION", Type: s.Field.Type, Mention: "lit"})
	case "elided.named":
		ev = append(ev, Event{Cat: "CTOR", Code: "CTOR01", Type: s.Type})
		ev = append(ev, Event{Cat: "MENTION", Type: s.Type, Mention: "lit", Elided: true})
	case "typedecl.container":
		mention("other")
	case "mcall.promoted":
		ev = append(ev, Event{Cat: "MCALL", Fn: s.Fn, Promoted: true})
	case "var.composite":
		mention("var") // var v []T / map[string]*T / chan T / [2]T: uses T, creates no T value the statement lists
	case "lit.composite":
		mention("lit") // []T{} / map[string]T{}: an empty literal of a composite type built from T
	case "new":
		ev = append(ev, Event{Cat: "CTOR", Code: "CTOR02", Type: s.Type})
		mention("other")
	case "conv":
		mention("other")
	case "var", "var2":
		ev = append(ev, Event{Cat: "CTOR", Code: "CTOR03", Type: s.Type})
		if s.Kind == "var2" {
			// two names, two zero-initialised instances
			ev = append(ev, Event{Cat: "CTOR", Code: "CTOR03", Type: s.Type})
		}
		mention("var")
	case "varptr", "varblank":
		mention("var")
	case "varinit":
		mention("var")
		ev = append(ev, Event{Cat: "CALL", Fn: s.Fn})
	case "varinfer", "call":
		ev = append(ev, Event{Cat: "CALL", Fn: s.Fn})
	case "call.arglit":
		ev = append(ev, Event{Cat: "CALL", Fn: s.Fn})
		ev = append(ev, Event{Cat: "CTOR", Code: "CTOR01", Type: s.Type})
		ev = append(ev, Event{Cat: "MENTION", Type: s.Type, Mention: "lit", Ptr: true})
	case "funcvalue":
		ev = append(ev, Event{Cat: "REF", Fn: s.Fn})
	case "mcall":
		ev = append(ev, Event{Cat: "MCALL", Fn: s.Fn})
	case "mcall.chain":
		// x.M1().M2(): two references that begin at the same position
		ev = append(ev, Event{Cat: "MCALL", Fn: s.Fn})
		ev = append(ev, Event{Cat: "MCALL", Fn: s.Fn2})
	case "mvalue":
		ev = append(ev, Event{Cat: "MREF", Fn: s.Fn})
	case "mexpr":
		mention("other")
		ev = append(ev, Event{Cat: "MREF", Fn: s.Fn})
	case "mexprcall":
		mention("other")
		ev = append(ev, Event{Cat: "MCALL", Fn: s.Fn})
	case "param", "result", "field", "recv", "embedded":
		mention(s.Kind)
	}
	return ev
}

// Expect is the oracle's verdict per site id.
type Expect struct {
	Must   map[int]map[string]bool // required (site, code)
	Counts map[int]map[string]int  // how many diagnostics with that code the site must carry (tuple / multi-name statements)
	May    map[int]map[string]bool // tolerated: shape the property leaves open
	OneOf  [][]SiteCode            // exactly one member of each group must be reported
}

func newExpect() *Expect {
	return &Expect{Must: map[int]map[string]bool{}, May: map[int]map[string]bool{}, Counts: map[int]map[string]int{}}
}
func (e *Expect) must(id int, code string) {
	if e.Must[id] == nil {
		e.Must[id] = map[string]bool{}
	}
	e.Must[id][code] = true
	if e.Counts[id] == nil {
		e.Counts[id] = map[string]int{}
	}
	e.Counts[id][code]++
}
func (e *Expect) may(id int, code string) {
	if e.May[id] == nil {
		e.May[id] = map[string]bool{}
	}
	e.May[id][code] = true
}
func (e *Expect) Count() int {
	n := 0
	for _, m := range e.Must {
		n += len(m)
	}
	return n
}

// Analysed reports whether a file is analysed under cfg according to the
// reference skip predicate (suffix _test.go unless scan-tests; absolute file
// name contains an exclude-paths token).
func Analysed(f *File, cfg engine.Config) bool {
	abs := engine.VirtualRoot + "/" + f.Pkg.Dir + "/" + f.Name
	for _, tok := range cfg.ExcludePaths {
		if tok != "" && strings.Contains(abs, tok) {
			return false
		}
	}
	if !cfg.ScanTests && strings.HasSuffix(f.Name, "_test.go") {
		return false
	}
	return true
}

// importSets returns, per compiled package variant, the set of imported
// packages: plain (regular files only) and all (regular + in-package tests).
func importSets(pkg *Pkg) (plain, all map[*Pkg]bool) {
	plain, all = map[*Pkg]bool{}, map[*Pkg]bool{}
	for _, f := range pkg.Files {
		if f.Kind == FileXTest {
			continue
		}
		for _, ip := range f.Imports {
			all[ip] = true
			if f.Kind == FileRegular {
				plain[ip] = true
			}
		}
	}
	return
}

// visibility of annotations of package d from file f: "yes", "no" or "variant"
// (only the test variant of the package imports d).
// Visible is visible() for harness classification.
func Visible(d *Pkg, ctx Ctx) string { return visible(d, ctx) }

func visible(d *Pkg, ctx Ctx) string {
	f := ctx.File
	if f.Kind == FileXTest {
		for _, ff := range f.Pkg.Files {
			if ff.Kind == FileXTest {
				for _, ip := range ff.Imports {
					if ip == d {
						return "yes"
					}
				}
			}
		}
		return "no"
	}
	if d == f.Pkg {
		return "yes"
	}
	plain, all := importSets(f.Pkg)
	if f.Kind == FileRegular {
		if plain[d] {
			return "yes"
		}
		if all[d] {
			return "variant"
		}
		return "no"
	}
	if all[d] {
		return "yes"
	}
	return "no"
}

// inConstructor: is the site inside a function named in @constructor of t, in
// t's own package? returns "yes", "no", or "open" (a method that shares the
// name: the property speaks of functions only).
func inConstructor(t *TypeDecl, ctx Ctx) string {
	if ctx.Func == nil || !t.IsCtor(ctx.Func.Name) {
		return "no"
	}
	if ctx.File.Kind == FileXTest || ctx.Func.Pkg != t.Pkg {
		return "no"
	}
	if ctx.Func.Recv != nil {
		return "open"
	}
	return "yes"
}

// ExpectIMM computes the expected IMM diagnostics (property C01).
func ExpectIMM(p *Prog, cfg engine.Config) *Expect {
	e := newExpect()
	p.Walk(func(si SiteInfo) {
		if !Analysed(si.Ctx.File, cfg) {
			return
		}
		for _, ev := range si.Site.Events() {
			if ev.Cat != "IMM" || !ev.Type.Immutable || !declAnalysed(p, ev.Type, cfg) {
				continue
			}
			if ev.Field != nil && ev.Field.Mutable {
				continue
			}
			vis := visible(ev.Type.Pkg, si.Ctx)
			if vis == "no" {
				continue
			}
			switch inConstructor(ev.Type, si.Ctx) {
			case "yes":
				continue
			case "open":
				e.may(si.Site.ID, ev.Code)
				continue
			}
			if vis == "variant" || ev.Open {
				e.may(si.Site.ID, ev.Code)
				continue
			}
			e.must(si.Site.ID, ev.Code)
		}
	})
	return e
}

// declAnalysed: annotations are only read from analysed files.
func declAnalysed(p *Prog, t *TypeDecl, cfg engine.Config) bool {
	f := t.File
	if f == nil {
		f = p.FileOf(t)
	}
	return f != nil && Analysed(f, cfg) && f.Kind == FileRegular
}

// ExpectCTOR computes the expected CTOR diagnostics (property C02).
func ExpectCTOR(p *Prog, cfg engine.Config) *Expect {
	e := newExpect()
	p.Walk(func(si SiteInfo) {
		if !Analysed(si.Ctx.File, cfg) {
			return
		}
		for _, ev := range si.Site.Events() {
			if ev.Cat != "CTOR" || !ev.Type.HasCtor() || !declAnalysed(p, ev.Type, cfg) {
				continue
			}
			vis := visible(ev.Type.Pkg, si.Ctx)
			if vis == "no" {
				continue
			}
			switch inConstructor(ev.Type, si.Ctx) {
			case "yes":
				continue
			case "open":
				e.may(si.Site.ID, ev.Code)
				continue
			}
			if vis == "variant" {
				e.may(si.Site.ID, ev.Code)
				continue
			}
			e.must(si.Site.ID, ev.Code)
		}
	})
	return e
}

// Mismatch describes one disagreement between tool and oracle.
type Mismatch struct {
	Site  int
	Code  string
	Kind  string // missing | unexpected | stray
	Where string
}

func (m Mismatch) String() string {
	return fmt.Sprintf("%s %s at %s (s%d)", m.Kind, m.Code, m.Where, m.Site)
}

// SiteDiags maps diagnostics with one of the code prefixes to site ids,
// counting distinct positions (the same diagnostic reported for several
// package variants counts once). Diagnostics on untagged lines are stray.
func SiteDiags(p *Prog, diags []engine.Diag, prefixes ...string) (bySite map[int]map[string]int, stray []engine.Diag) {
	bySite = map[int]map[string]int{}
	files := map[string]*File{}
	for _, pkg := range p.Pkgs {
		for _, f := range pkg.Files {
			files[pkg.Dir+"/"+f.Name] = f
		}
	}
	// the same diagnostic reported for several variants of a package (p and p [p.test])
	// counts once; the same diagnostic reported twice within one variant counts twice
	diags = engine.CollapseVariants(diags)
	for _, d := range diags {
		ok := len(prefixes) == 0
		for _, pre := range prefixes {
			if strings.HasPrefix(d.Code, pre) {
				ok = true
			}
		}
		if !ok {
			continue
		}
		f := files[d.File]
		id := 0
		if f != nil {
			id = TagAtCol(f.Lines, d.Line, d.Col)
		}
		if id == 0 {
			stray = append(stray, d)
			continue
		}
		if bySite[id] == nil {
			bySite[id] = map[string]int{}
		}
		bySite[id][d.Code]++
	}
	return
}

// Compare checks tool output against the expectation for the given code prefixes.
func Compare(p *Prog, diags []engine.Diag, e *Expect, prefixes ...string) []Mismatch {
	got, stray := SiteDiags(p, diags, prefixes...)
	if len(stray) == 0 {
		key := func(id int, c string) string { return fmt.Sprintf("%d:%s", id, c) }
		g, m, my := map[string]int{}, map[string]int{}, map[string]bool{}
		for id, cs := range got {
			for c, n := range cs {
				g[key(id, c)] = n
			}
		}
		for id, cs := range e.Must {
			for c := range cs {
				n := e.Counts[id][c]
				if n < 1 {
					n = 1
				}
				m[key(id, c)] = n
			}
		}
		for id, cs := range e.May {
			for c := range cs {
				my[key(id, c)] = true
			}
		}
		var grps [][]string
		for _, grp := range e.OneOf {
			var ks []string
			for _, sc := range grp {
				ks = append(ks, key(sc.Site, sc.Code))
			}
			grps = append(grps, ks)
		}
		if Feasible(g, m, my, grps) {
			return nil
		}
	}
	var out []Mismatch
	where := map[int]string{}
	p.Walk(func(si SiteInfo) {
		where[si.Site.ID] = fmt.Sprintf("%s/%s:%d %s", si.Ctx.Pkg.Dir, si.Ctx.File.Name, si.Site.Start, si.Site.Kind)
	})
	for id, codes := range e.Must {
		for c := range codes {
			switch n, want := got[id][c], e.Counts[id][c]; {
			case n == 0:
				out = append(out, Mismatch{Site: id, Code: c, Kind: "missing", Where: where[id]})
			case n < want:
				out = append(out, Mismatch{Site: id, Code: c, Kind: fmt.Sprintf("reported %d times instead of %d:", n, want), Where: where[id]})
			case n > want:
				out = append(out, Mismatch{Site: id, Code: c, Kind: fmt.Sprintf("reported %d times instead of %d:", n, want), Where: where[id]})
			}
		}
	}
	inGroup := map[SiteCode]bool{}
	for _, grp := range e.OneOf {
		n := 0
		for _, sc := range grp {
			inGroup[sc] = true
			n += got[sc.Site][sc.Code]
		}
		if n != 1 {
			out = append(out, Mismatch{Site: grp[0].Site, Code: grp[0].Code, Kind: fmt.Sprintf("once-per-file group reported %d times (want 1):", n), Where: where[grp[0].Site]})
		}
	}
	for id, codes := range got {
		for c := range codes {
			if inGroup[SiteCode{id, c}] {
				continue
			}
			if !e.Must[id][c] && !e.May[id][c] {
				out = append(out, Mismatch{Site: id, Code: c, Kind: "unexpected", Where: where[id]})
			}
		}
	}
	for _, d := range stray {
		out = append(out, Mismatch{Code: d.Code, Kind: "stray", Where: fmt.Sprintf("%s:%d", d.File, d.Line)})
	}
	if len(out) == 0 {
		out = append(out, Mismatch{Kind: "overlapping once-per-file groups cannot be attributed (unexpected extra or missing report)"})
	}
	sort.Slice(out, func(i, j int) bool {
		if out[i].Site != out[j].Site {
			return out[i].Site < out[j].Site
		}
		return out[i].Code < out[j].Code
	})
	return out
}

// Feasible reports whether the observed counts can be explained by the
// expectation: every must key is reported exactly its count, every group
// contributes exactly one report at one of its keys, and anything left over
// sits on a may key. Groups may overlap (two once-per-file groups of different
// types can share a line), so the attribution is searched.
func Feasible(got, must map[string]int, may map[string]bool, groups [][]string) bool {
	rem := map[string]int{}
	for k, n := range got {
		rem[k] = n
	}
	for k, w := range must {
		if rem[k] < w {
			return false
		}
		rem[k] -= w
	}
	inGroup := map[string]bool{}
	for _, g := range groups {
		for _, k := range g {
			inGroup[k] = true
		}
	}
	// leftovers outside the groups are decided already
	for k, n := range rem {
		if n > 0 && !may[k] && !inGroup[k] {
			return false
		}
	}
	var rec func(i int) bool
	rec = func(i int) bool {
		if i == len(groups) {
			for k := range inGroup {
				if rem[k] > 0 && !may[k] {
					return false
				}
			}
			return true
		}
		seen := map[string]bool{}
		for _, k := range groups[i] {
			if seen[k] || rem[k] < 1 {
				continue
			}
			seen[k] = true
			rem[k]--
			if rec(i + 1) {
				return true
			}
			rem[k]++
		}
		return false
	}
	return rec(0)
}

// ---------------------------------------------------------------------------
// C03 (@testonly) and C04 (@packageonly)

// SiteCode names one (site, code) pair.
type SiteCode struct {
	Site int
	Code string
}

// funcAnnotVisible: annotations on functions are read from analysed regular files.
func funcDeclAnalysed(p *Prog, f *FuncDecl, cfg engine.Config) bool {
	file := f.File
	if file == nil {
		file = p.FileOf(f)
	}
	return file != nil && Analysed(file, cfg) && file.Kind == FileRegular
}

// ExpectTONL computes the expected TONL diagnostics (property C03).
// once-per-file TONL01 groups are returned in Expect.OneOf.
func ExpectTONL(p *Prog, cfg engine.Config) *Expect {
	e := newExpect()
	type key struct {
		f *File
		t *TypeDecl
	}
	type state struct {
		unjudged []int
		done     bool
	}
	st := map[key]*state{}
	p.Walk(func(si SiteInfo) {
		f := si.Ctx.File
		if !Analysed(f, cfg) || f.IsTest() {
			return
		}
		// the whole declaration of a @testonly function / method is exempt
		if fn := si.Ctx.Func; fn != nil && fn.TestOnly && funcDeclAnalysed(p, fn, cfg) {
			return
		}
		for _, evn := range si.Site.Events() {
			switch evn.Cat {
			case "CALL", "REF", "MCALL", "MREF":
				fn := evn.Fn
				if !fn.TestOnly || !funcDeclAnalysed(p, fn, cfg) {
					continue
				}
				vis := visible(fn.Pkg, si.Ctx)
				if vis == "no" {
					continue
				}
				code := "TONL02"
				if fn.Recv != nil {
					code = "TONL03"
				}
				if evn.Cat == "REF" || evn.Cat == "MREF" || vis == "variant" {
					e.may(si.Site.ID, code) // function value not called: left open
					continue
				}
				e.must(si.Site.ID, code)
			case "MENTION":
				t := evn.Type
				if !t.TestOnly || !declAnalysed(p, t, cfg) {
					continue
				}
				vis := visible(t.Pkg, si.Ctx)
				if vis == "no" {
					continue
				}
				k := key{f, t}
				s := st[k]
				if s == nil {
					s = &state{}
					st[k] = s
				}
				if s.done {
					continue
				}
				judged := evn.Mention == "lit" || evn.Mention == "var" || evn.Mention == "field" || evn.Mention == "param" || evn.Mention == "result" || evn.Mention == "embedded"
				if !judged || vis == "variant" {
					s.unjudged = append(s.unjudged, si.Site.ID)
					continue
				}
				s.done = true
				if len(s.unjudged) == 0 {
					e.must(si.Site.ID, "TONL01")
				} else {
					grp := []SiteCode{{si.Site.ID, "TONL01"}}
					for _, u := range s.unjudged {
						grp = append(grp, SiteCode{u, "TONL01"})
					}
					e.OneOf = append(e.OneOf, grp)
				}
			}
		}
	})
	for _, s := range st {
		if !s.done {
			for _, u := range s.unjudged {
				e.may(u, "TONL01")
			}
		}
	}
	return e
}

// compiledPkg returns path and name of the package a file is compiled into.
func compiledPkg(f *File) (string, string) {
	return f.SrcPkgPath(), f.PkgName()
}

// Allowed reports whether a using package (path, name) appears in the union of
// the allow lists.
func Allowed(lists [][]string, path, name string) bool {
	for _, l := range lists {
		for _, it := range l {
			if it == path || it == name {
				return true
			}
		}
	}
	return false
}

// ExpectPKGO computes the expected PKGO diagnostics (property C04).
func ExpectPKGO(p *Prog, cfg engine.Config) *Expect {
	e := newExpect()
	type key struct {
		f *File
		t *TypeDecl
	}
	seen := map[key]bool{}
	p.Walk(func(si SiteInfo) {
		f := si.Ctx.File
		if !Analysed(f, cfg) {
			return
		}
		upath, uname := compiledPkg(f)
		for _, evn := range si.Site.Events() {
			switch evn.Cat {
			case "CALL", "REF", "MCALL", "MREF":
				fn := evn.Fn
				if fn.PackageOnly == nil || !funcDeclAnalysed(p, fn, cfg) {
					continue
				}
				if fn.Pkg.Path() == upath {
					continue // the declaring package is always allowed
				}
				vis := visible(fn.Pkg, si.Ctx)
				if vis == "no" || Allowed(fn.PackageOnly, upath, uname) {
					continue
				}
				code := "PKGO02"
				if fn.Recv != nil {
					code = "PKGO03"
				}
				if vis == "variant" {
					e.may(si.Site.ID, code)
					continue
				}
				e.must(si.Site.ID, code)
			case "MENTION":
				t := evn.Type
				if t.PackageOnly == nil || !declAnalysed(p, t, cfg) {
					continue
				}
				if t.Pkg.Path() == upath {
					continue
				}
				vis := visible(t.Pkg, si.Ctx)
				if vis == "no" || Allowed(t.PackageOnly, upath, uname) {
					continue
				}
				k := key{f, t}
				if seen[k] {
					continue
				}
				// an elided element literal does not name the type: whether it is a "reference" is left open
				if vis == "variant" || evn.Elided {
					e.may(si.Site.ID, "PKGO01")
					continue
				}
				seen[k] = true
				e.must(si.Site.ID, "PKGO01")
			}
		}
	})
	return e
}
