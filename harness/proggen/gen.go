package proggen

import (
	"fmt"
	"strings"

	"pgregory.net/rapid"
)

// GenOpts steers the generator.
type GenOpts struct {
	Focus     string // imm | ctor | tonl | pkgo | all
	MinPkgs   int
	MaxPkgs   int
	TestFiles bool // also place declarations / sites in _test.go files
	XTest     bool // allow an external test package
	Aliases   bool // explicit import aliases in some files
	Rich      bool // several annotation kinds on the same type
	SameName  bool // prefer packages whose files bind one import name to different packages, and types that @implements through it
	Islands   bool // a third of the packages import nothing: several packages without a dependency between them (analysed concurrently by the drivers)
	Twins     bool // prefer programs with the two same-named packages (and same-named interfaces), all packages importable by all later ones
}

type pkgSpec struct{ dir, name string }

var pkgPool = []pkgSpec{{"a", "a"}, {"b", "b"}, {"c", "c"}, {"n/sub", "sub"}, {"d-x", "dx"}, {"e.v", "ev"}, {"odd", "quirk"}, {"z", "z"}, {"v1/store", "store"}, {"v2/store", "store"}}

type gen struct {
	t          *rapid.T
	o          GenOpts
	p          *Prog
	vseq       int
	cur        []Decl // declarations of the package under construction
	curPkg     *Pkg
	curTypes   []*TypeDecl
	curEarlier []*Pkg
	consumer   bool        // the package being generated declares no annotations of its own
	inXTest    bool        // generating the external test package: the own package is an import
	sibling    func() Stmt // draws one more simple site for the current body (set by genBody)
}

func (g *gen) chance(label string, pct int) bool {
	return rapid.IntRange(0, 99).Draw(g.t, label) < pct
}
func (g *gen) pick(label string, n int) int { return rapid.IntRange(0, n-1).Draw(g.t, label) }
func (g *gen) has(cat string) bool {
	if cat == "impl" {
		return g.o.Focus == "all"
	}
	return g.o.Focus == cat || g.o.Focus == "all" || g.o.Rich
}

// scope tracks variables usable as operands inside a body.
type scope struct {
	g         *gen
	vars      []*Var
	addPar    func(v *Var) // adds a parameter to the nearest holder
	recv      *Var
	parent    *scope
	ptrParams bool // new parameters must be pointers (callers pass nil)
}

func (s *scope) ptrOnly() bool {
	for c := s; c != nil; c = c.parent {
		if c.ptrParams {
			return true
		}
	}
	return false
}

func (s *scope) all() []*Var {
	var out []*Var
	for c := s; c != nil; c = c.parent {
		out = append(out, c.vars...)
	}
	return out
}

// operand finds or creates a variable of type t (pointer or value).
func (s *scope) operand(t *TypeDecl, wantPtr bool, strict bool) *Var {
	var cands []*Var
	for _, v := range s.all() {
		if v.Ref != nil && v.Ref.Type == t && v.Ref.Via == nil && (!strict || v.Ref.Ptr == wantPtr) {
			cands = append(cands, v)
		}
	}
	if len(cands) > 0 && s.g.chance("reuseOperand", 75) {
		return cands[s.g.pick("operandIdx", len(cands))]
	}
	return s.newParam(t, wantPtr)
}

func (s *scope) newParam(t *TypeDecl, ptr bool) *Var {
	if s.ptrOnly() {
		ptr = true
	}
	s.g.vseq++
	v := &Var{Name: fmt.Sprintf("p%d", s.g.vseq), Ref: &TypeRef{Type: t, Ptr: ptr}, ID: s.g.p.NewID()}
	h := s
	for h.addPar == nil && h.parent != nil {
		h = h.parent
	}
	h.addPar(v)
	h.vars = append(h.vars, v)
	return v
}

// Gen draws a program.
func Gen(t *rapid.T, o GenOpts) *Prog {
	g := &gen{t: t, o: o, p: &Prog{}}
	if o.MinPkgs == 0 {
		o.MinPkgs = 1
	}
	if o.MaxPkgs == 0 {
		o.MaxPkgs = 4
	}
	g.o = o
	n := rapid.IntRange(o.MinPkgs, o.MaxPkgs).Draw(t, "npkgs")
	// choose package identities
	perm := rapid.Permutation(pkgPool).Draw(t, "pkgperm")
	twinPct := 4
	if o.Twins {
		twinPct = 8
	}
	if n >= 3 && rapid.IntRange(0, 9).Draw(t, "sameNamedPkgs") < twinPct {
		// two packages that share their declared name
		var rest []pkgSpec
		for _, sp := range perm {
			if sp.name != "store" {
				rest = append(rest, sp)
			}
		}
		perm = append([]pkgSpec{{"v1/store", "store"}, {"v2/store", "store"}}, rest...)
	}
	for i := 0; i < n; i++ {
		pkg := &Pkg{Dir: perm[i].dir, Name: perm[i].name, Idx: i}
		g.p.Pkgs = append(g.p.Pkgs, pkg)
	}
	for i, pkg := range g.p.Pkgs {
		g.genPkg(pkg, g.p.Pkgs[:i])
	}
	// two imported packages with the same declared name need explicit aliases
	byName := map[string][]*Pkg{}
	for _, pkg := range g.p.Pkgs {
		byName[pkg.Name] = append(byName[pkg.Name], pkg)
	}
	for _, same := range byName {
		if len(same) < 2 {
			continue
		}
		for _, dup := range same {
			for _, pkg := range g.p.Pkgs {
				for _, f := range pkg.Files {
					if f.Aliases[dup] == "" {
						f.Aliases[dup] = fmt.Sprintf("%s%d", dup.Name, dup.Idx)
					}
				}
			}
		}
	}
	g.p.Render()
	return g.p
}

func (g *gen) genPkg(pkg *Pkg, earlier []*Pkg) {
	t := g.t
	var decls []Decl
	g.cur, g.curPkg = nil, pkg
	defer func() { g.cur, g.curPkg = nil, nil }()
	// a package that leaves one earlier package alone: it can still reach that
	// package's types through the API of the ones it does import
	if g.o.Islands && len(earlier) >= 1 && g.chance("island", 20) {
		earlier = nil
	}
	if len(earlier) >= 2 && !g.o.Twins && g.chance("narrowImports", 35) {
		drop := g.pick("dropPkg", len(earlier))
		kept := append([]*Pkg{}, earlier[:drop]...)
		earlier = append(kept, earlier[drop+1:]...)
	}
	// a pure consumer: a package without annotations of its own (everything it can
	// violate is declared by the packages it imports)
	g.consumer = len(earlier) >= 1 && g.chance("consumerPkg", 12)
	pkg.Consumer = g.consumer
	defer func() { g.consumer = false }()
	// ---- types
	nTypes := rapid.IntRange(1, 3).Draw(t, "ntypes")
	var types []*TypeDecl
	namePool := []string{"T", "U", "Mock", "Cfg"}
	for i := 0; i < nTypes; i++ {
		td := &TypeDecl{ID: g.p.NewID(), Pkg: pkg}
		td.Name = namePool[g.pick("tname", len(namePool))]
		if g.chance("unexportedType", 12) {
			td.Name = strings.ToLower(td.Name[:1]) + td.Name[1:] + "u"
		}
		for _, o := range types {
			if strings.EqualFold(o.Name, td.Name) {
				td.Name = fmt.Sprintf("%s%d", td.Name, i)
			}
		}
		k := g.pick("tkind", 100)
		switch {
		case k < 72:
			td.Kind = KStruct
		case k < 86:
			td.Kind = KInt
		case k < 94:
			td.Kind = KSlice
		default:
			td.Kind = KMap
		}
		if td.Kind == KStruct {
			g.genFields(td, types, earlier)
		}
		g.annotate(td)
		td.Grouped = g.chance("grouped", 8)
		if g.chance("extradoc", 25) {
			td.ExtraDoc = []string{"// " + td.Name + " does things, see @immutable types and the @constructor docs."}
		}
		types = append(types, td)
		decls = g.add(decls, td)
	}
	// ---- named containers of annotated struct types (type Users []d.User): the
	// element type is never written where the container is instantiated
	{
		var elems []*TypeDecl
		for _, t := range visibleTypes(types, earlier) {
			if t.Kind == KStruct {
				elems = append(elems, t)
			}
		}
		if len(elems) > 0 && g.chance("containerType", 35) {
			el := elems[g.pick("containerElem", len(elems))]
			ct := &TypeDecl{ID: g.p.NewID(), Pkg: pkg, Kind: KSliceOf, Name: fmt.Sprintf("Many%s_%d", strings.ToUpper(el.Name[:1])+el.Name[1:], len(types)), Elem: &TypeRef{Type: el}}
			if g.chance("containerMap", 40) {
				ct.Kind = KMapOf
			}
			types = append(types, ct)
			decls = g.add(decls, ct)
		}
	}
	// ---- type D T: a defined type built from a struct type of this package; it has
	// T's fields (the very same field objects) but its own annotations
	if g.chance("definedFrom", 25) {
		var bases []*TypeDecl
		for _, t := range types {
			if t.Kind == KStruct && t.DefOf == nil && !t.TestOnly && len(writableBasics(t)) > 0 {
				bases = append(bases, t)
			}
		}
		if len(bases) > 0 {
			b := bases[g.pick("definedFromBase", len(bases))]
			dt := &TypeDecl{ID: g.p.NewID(), Pkg: pkg, Kind: KStruct, Name: fmt.Sprintf("D%s_%d", strings.ToUpper(b.Name[:1])+b.Name[1:], len(types)), DefOf: b}
			for _, f := range writableBasics(b) {
				dt.Fields = append(dt.Fields, &Field{Name: f.Name, Basic: f.Basic})
			}
			g.annotate(dt)
			types = append(types, dt)
			decls = g.add(decls, dt)
		}
	}
	// ---- interfaces and @implements (same-named interfaces of different
	// packages deliberately have different method sets)
	if g.has("impl") {
		// a same-named earlier package that declares an interface: declare the
		// same interface name here with a different method set
		var twin *TypeDecl
		for _, ep := range earlier {
			if ep.Name == pkg.Name {
				for _, t := range typesOf(ep) {
					if t.Kind == KIface {
						twin = t
					}
				}
			}
		}
		if g.chance("declIface", 45) || twin != nil || pkg.Name == "store" {
			it := &TypeDecl{ID: g.p.NewID(), Pkg: pkg, Kind: KIface, Name: []string{"Repo", "Svc"}[g.pick("ifaceName", 2)]}
			nm := 1 + (pkg.Idx+g.pick("ifaceMethods", 2))%2
			if twin != nil {
				it.Name = twin.Name
				nm = 3 - len(twin.IfaceMethods)
			}
			for k := 0; k < nm; k++ {
				it.IfaceMethods = append(it.IfaceMethods, fmt.Sprintf("G%d()", k))
			}
			types = append(types, it)
			decls = g.add(decls, it)
		}
		var ifaces []*TypeDecl
		for _, t := range types {
			if t.Kind == KIface {
				ifaces = append(ifaces, t)
			}
		}
		for _, ep := range earlier {
			for _, t := range typesOf(ep) {
				if t.Kind == KIface {
					ifaces = append(ifaces, t)
				}
			}
		}
		for _, td := range types {
			implPct := 35
			if g.o.SameName {
				implPct = 75
			}
			if td.Kind == KIface || td.Elem != nil || len(ifaces) == 0 || !g.chance("implements", implPct) {
				continue
			}
			it := ifaces[g.pick("implIface", len(ifaces))]
			var twins []*TypeDecl
			for _, c := range ifaces {
				for _, o := range ifaces {
					if c != o && c.Pkg != o.Pkg && c.Pkg.Name == o.Pkg.Name && c.Name == o.Name && c.Pkg != pkg {
						twins = append(twins, c)
					}
				}
			}
			if len(twins) > 0 && g.chance("implTwin", 70) {
				it = twins[g.pick("twinIdx", len(twins))]
			}
			td.ImplRefs = append(td.ImplRefs, ImplRef{Ptr: g.chance("implAmp", 50), Iface: it})
			// a second contract on the same type, possibly failing for another reason
			if g.chance("secondImplements", 30) {
				switch g.pick("secondKind", 3) {
				case 0:
					td.ImplRefs = append(td.ImplRefs, ImplRef{Raw: "MissingIface"})
				case 1:
					td.ImplRefs = append(td.ImplRefs, ImplRef{Raw: "nosuchpkg.Repo", Ptr: true})
				default:
					td.ImplRefs = append(td.ImplRefs, ImplRef{Ptr: g.chance("implAmp2", 50), Iface: ifaces[g.pick("implIface2", len(ifaces))]})
				}
			}
			nm := rapid.IntRange(0, 2).Draw(t, "implMethods")
			for k := 0; k < nm; k++ {
				m := &FuncDecl{ID: g.p.NewID(), Name: fmt.Sprintf("G%d", k), Pkg: pkg, done: true, called: true}
				m.Recv = &Var{Name: "r", Ref: &TypeRef{Type: td, Ptr: g.chance("implRecvPtr", 50)}, ID: m.ID}
				decls = g.add(decls, m)
			}
		}
	}
	g.curTypes, g.curEarlier = types, earlier
	// ---- constructors
	for _, td := range types {
		if !td.HasCtor() {
			continue
		}
		for _, cn := range td.Constructors {
			if strings.HasPrefix(cn, "Missing") {
				continue // named but never declared (allowed by the docs)
			}
			decls = g.add(decls, g.genCtor(pkg, td, cn))
		}
	}
	// ---- exported getters: the only way importers reach an unexported type
	for _, td := range types {
		if td.Exported() {
			continue
		}
		gt := &FuncDecl{ID: g.p.NewID(), Name: "Get" + strings.ToUpper(td.Name[:1]) + td.Name[1:], Pkg: pkg, done: true, called: true}
		gt.Results = []*TypeRef{{Type: td, Ptr: true}}
		gt.ResultIDs = []int{g.p.NewID()}
		gt.RetExpr = "nil"
		decls = g.add(decls, gt)
	}
	// ---- methods with annotations (testonly/packageonly) and plain ones
	var funcs []*FuncDecl
	recvAlias := map[*TypeDecl]*TypeDecl{}
	for _, td := range types {
		if td.Kind == KIface || td.Elem != nil {
			continue
		}
		nm := rapid.IntRange(0, 2).Draw(t, "nmethods")
		for i := 0; i < nm; i++ {
			fd := g.genFunc(pkg, td, fmt.Sprintf("M%d", i), types, earlier)
			// the receiver may be spelled through parentheses or a local alias:
			// func (r *(T)), func (r (*T)), func (r (T)), func (r *TAl)
			switch k := g.pick("recvSpelling", 100); {
			case k < 6:
				fd.Recv.Ref.Paren = true
			case k < 10 && fd.Recv.Ref.Ptr:
				fd.Recv.Ref.ParenAll = true
			case k < 15:
				if recvAlias[td] == nil {
					recvAlias[td] = &TypeDecl{ID: g.p.NewID(), Pkg: pkg, Kind: td.Kind, Name: td.Name + "Al", AliasOf: &TypeRef{Type: td}}
					decls = g.add(decls, recvAlias[td])
				}
				fd.Recv.Ref.Via = recvAlias[td]
			}
			funcs = append(funcs, fd)
			decls = g.add(decls, fd)
		}
		// fluent methods: callers chain them, x.W0().W1() - two references that
		// begin at the same position
		if td.Kind == KStruct && g.chance("fluentMethods", 20) {
			for i := 0; i < 2; i++ {
				fd := &FuncDecl{ID: g.p.NewID(), Name: fmt.Sprintf("W%d", i), Pkg: pkg, Fluent: true, done: true}
				fd.Recv = &Var{Name: "r", Ref: &TypeRef{Type: td, Ptr: true}, ID: fd.ID}
				fd.Results = []*TypeRef{{Type: td, Ptr: true}}
				fd.ResultIDs = []int{g.p.NewID()}
				fd.RetVar = fd.Recv
				if !g.consumer && g.has("tonl") && g.chance("fnTestOnly", 35) {
					fd.TestOnly = true
				}
				if !g.consumer && g.has("pkgo") && g.chance("fnPkgOnly", 50) {
					fd.PackageOnly = g.allowLists()
				}
				funcs = append(funcs, fd)
				decls = g.add(decls, fd)
			}
		}
	}
	for _, td := range types {
		td.methodsClosed = true
	}
	// ---- functions
	nf := rapid.IntRange(1, 3).Draw(t, "nfuncs")
	for i := 0; i < nf; i++ {
		name := fmt.Sprintf("F%d", i)
		// decoy: a function carrying the name of a constructor of an imported type
		if len(earlier) > 0 && g.chance("ctorDecoy", 20) {
			for _, ep := range earlier {
				for _, et := range typesOf(ep) {
					if et.HasCtor() && !strings.HasPrefix(et.Constructors[0], "Missing") {
						name = et.Constructors[0]
					}
				}
			}
			for _, d := range decls {
				if fd, ok := d.(*FuncDecl); ok && fd.Name == name && fd.Recv == nil {
					name = fmt.Sprintf("F%d", i)
				}
			}
		}
		// decoy: an unlisted function of the type's own package whose name differs from a
		// listed constructor in letter case only (NEWT0 beside NewT0): no exemption
		if name == fmt.Sprintf("F%d", i) && g.chance("ctorCaseDecoy", 12) {
			for _, td := range types {
				if td.HasCtor() && !strings.HasPrefix(td.Constructors[0], "Missing") {
					name = strings.ToUpper(td.Constructors[0])
				}
			}
			for _, d := range decls {
				if fd, ok := d.(*FuncDecl); ok && fd.Name == name && fd.Recv == nil {
					name = fmt.Sprintf("F%d", i)
				}
			}
			for _, td := range types {
				if td.IsCtor(name) {
					name = fmt.Sprintf("F%d", i)
				}
			}
		}
		fd := g.genFunc(pkg, nil, name, types, earlier)
		// generic declarations are outside the documented support of the annotations:
		// only unannotated functions are made generic (calls of them must stay silent)
		fd.Generic = !fd.TestOnly && fd.PackageOnly == nil && g.chance("genericFunc", 12)
		funcs = append(funcs, fd)
		decls = g.add(decls, fd)
	}
	// ---- functions reaching an imported type only through a same-package helper
	// (the using file needs no import) and functions whose parameter is spelled
	// like the package qualifier
	// a function whose signature uses struct types inside composite types:
	// (a []T, b map[string]*U, c ...T) chan U
	if g.chance("compositeSignature", 20) {
		var st []*TypeDecl
		for _, v := range visibleTypes(types, earlier) {
			if v.Kind == KStruct {
				st = append(st, v)
			}
		}
		if len(st) > 0 {
			w := &FuncDecl{ID: g.p.NewID(), Name: fmt.Sprintf("Sig%d", len(decls)), Pkg: pkg, done: true}
			np := rapid.IntRange(1, 3).Draw(t, "nSigParams")
			for i := 0; i < np; i++ {
				g.vseq++
				wi := g.pick("sigWrap", 3)
				if i == np-1 && g.chance("variadic", 40) {
					wi = 4
				}
				pref := &TypeRef{Type: st[g.pick("sigType", len(st))], Ptr: g.chance("sigPtr", 40), Wrap: wraps[wi]}
				g.mapKey(pref, visibleTypes(types, earlier))
				w.Params = append(w.Params, &Var{Name: fmt.Sprintf("p%d", g.vseq), ID: g.p.NewID(), Ref: pref})
			}
			if g.chance("sigResult", 60) {
				w.Results = []*TypeRef{{Type: st[g.pick("sigResType", len(st))], Ptr: g.chance("sigPtr", 40), Wrap: wraps[g.pick("sigResWrap", 3)]}}
				g.mapKey(w.Results[0], visibleTypes(types, earlier))
				w.ResultIDs = []int{g.p.NewID()}
				w.RetExpr = "nil"
			}
			decls = g.add(decls, w)
		}
	}
	// an exported helper handing out a type of an earlier package (later packages
	// can reach that type without importing its package)
	if len(earlier) > 0 && g.chance("exportHelper", 40) {
		var cands []*TypeDecl
		for _, ep := range earlier {
			for _, t := range typesOf(ep) {
				if t.Kind == KStruct && t.Exported() {
					cands = append(cands, t)
				}
			}
		}
		if len(cands) > 0 {
			t := cands[g.pick("exportHelperType", len(cands))]
			h := &FuncDecl{ID: g.p.NewID(), Name: fmt.Sprintf("Hx%d", len(decls)), Pkg: pkg, done: true, called: true}
			h.Results = []*TypeRef{{Type: t, Ptr: true}}
			h.ResultIDs = []int{g.p.NewID()}
			h.RetExpr = "nil"
			decls = g.add(decls, h)
		}
	}
	for round := 0; round < 2; round++ {
		if len(earlier) > 0 && g.chance("indirectUser", 45) {
			if ds := g.genIndirect(pkg, earlier, len(decls)); ds != nil {
				for _, d := range ds {
					decls = g.add(decls, d)
				}
			}
		}
	}
	// ---- package-level vars
	nv := rapid.IntRange(0, 3).Draw(t, "nvars")
	for i := 0; i < nv; i++ {
		vd := &VarDecl{ID: g.p.NewID(), Name: fmt.Sprintf("g%d", i), Pkg: pkg}
		if g.chance("varClosure", 60) {
			cl := &Closure{}
			vd.Closure = cl
			sc := &scope{g: g}
			sc.addPar = func(v *Var) { cl.Params = append(cl.Params, v) }
			cl.Body = g.genBody(sc, pkg, types, earlier, 0, false)
		} else {
			vd.Site = g.genPkgVarSite(pkg, vd.Name, types, earlier)
			if vd.Site == nil {
				continue
			}
			vd.Grouped = g.chance("vargroup", 25)
			// a second spec in the same group: `var ( g0 T; g0s = T{} )` - one GenDecl, two sites
			if vd.Grouped && g.chance("vargroupSecond", 60) {
				vd.Site2 = g.genPkgVarSite(pkg, vd.Name+"s", types, earlier)
			}
		}
		decls = g.add(decls, vd)
	}
	// ---- files
	nfiles := rapid.IntRange(1, 2).Draw(t, "nfiles")
	var files []*File
	for i := 0; i < nfiles; i++ {
		files = append(files, &File{Name: fmt.Sprintf("f%d.go", i), Kind: FileRegular, Pkg: pkg, Aliases: map[*Pkg]string{}})
	}
	var tfile *File
	if g.o.TestFiles && g.chance("hasTestFile", 50) {
		tfile = &File{Name: "x_test.go", Kind: FileInTest, Pkg: pkg, Aliases: map[*Pkg]string{}}
	}
	order := rapid.Permutation(decls).Draw(t, "declorder")
	for _, d := range order {
		f := files[g.pick("fileIdx", len(files))]
		if fd, ok := d.(*FuncDecl); ok && tfile != nil && !isCtorOrAnnotated(fd, types) && g.chance("inTestFile", 30) {
			f = tfile
		}
		if vd, ok := d.(*VarDecl); ok && tfile != nil && g.chance("varInTestFile", 20) {
			_ = vd
			f = tfile
		}
		f.Decls = append(f.Decls, d)
	}
	if tfile != nil && len(tfile.Decls) > 0 {
		files = append(files, tfile)
	}
	// type ( A ...; B ... ): pull further type declarations of the file into the
	// group of an earlier one (each spec keeps its own doc comment, or has none)
	for _, f := range files {
		if !g.chance("typeGroup", 25) {
			continue
		}
		var head *TypeDecl
		hi := -1
		for i, d := range f.Decls {
			if td, ok := d.(*TypeDecl); ok {
				head, hi = td, i
				break
			}
		}
		if head == nil {
			continue
		}
		var members, rest []Decl
		for _, d := range f.Decls[hi+1:] {
			if td, ok := d.(*TypeDecl); ok && len(members) < 3 && g.chance("joinGroup", 60) {
				td.JoinPrev, td.Grouped = true, false
				members = append(members, td)
			} else {
				rest = append(rest, d)
			}
		}
		if len(members) == 0 {
			continue
		}
		head.Grouped = true
		nd := append([]Decl{}, f.Decls[:hi+1]...)
		nd = append(nd, members...)
		f.Decls = append(nd, rest...)
	}
	if g.o.Aliases {
		for _, f := range files {
			for _, ep := range earlier {
				if g.chance("importAlias", 25) {
					f.Aliases[ep] = fmt.Sprintf("x%s%d", ep.Name, ep.Idx)
				}
			}
		}
	}
	if g.o.Rich {
		for _, f := range files {
			f.Unsafe = g.chance("importsUnsafe", 12)
		}
	}
	// the same import name bound to different packages in different files of the package
	sharedPct := 30
	if g.o.SameName {
		sharedPct = 85
	}
	if g.o.Aliases && len(earlier) >= 2 && len(files) >= 2 && g.chance("sharedAlias", sharedPct) {
		for _, f := range files {
			// prefer a package that an @implements annotation of this file names: the
			// annotation is then spelled dep.I, and dep means something else next door
			var named []*Pkg
			for _, d := range f.Decls {
				if td, ok := d.(*TypeDecl); ok {
					for _, ir := range td.ImplRefs {
						if ir.Raw == "" && ir.Iface != nil && ir.Iface.Pkg != pkg {
							named = append(named, ir.Iface.Pkg)
						}
					}
				}
			}
			if len(named) > 0 && g.chance("sharedAliasOnImplements", 80) {
				f.Aliases[named[g.pick("sharedAliasImplPkg", len(named))]] = "dep"
			} else {
				f.Aliases[earlier[g.pick("sharedAliasPkg", len(earlier))]] = "dep"
			}
		}
	}
	pkg.Files = files
	// methods must be declared in the same package as their type but may sit in any file: fine.
	_ = funcs
	// ---- external test package (package <name>_test): sees this package as an import
	if g.o.XTest && g.chance("hasXTest", 35) {
		xf := &File{Name: "ext_test.go", Kind: FileXTest, Pkg: pkg, Aliases: map[*Pkg]string{}}
		for _, f := range files {
			for k, v := range f.Aliases {
				xf.Aliases[k] = v
			}
			break
		}
		g.inXTest = true
		g.cur = nil
		seen := append(append([]*Pkg{}, earlier...), pkg)
		nx := rapid.IntRange(1, 2).Draw(t, "nxfuncs")
		for i := 0; i < nx; i++ {
			name := fmt.Sprintf("X%d", i)
			// a helper of the external test package that carries the name of a
			// constructor of the package under test: it is not that constructor
			if g.chance("xtestCtorName", 30) {
				for _, td := range types {
					if td.HasCtor() && td.Exported() && !strings.HasPrefix(td.Constructors[0], "Missing") {
						name = td.Constructors[g.pick("xtestCtorIdx", len(td.Constructors))]
						break
					}
				}
				for _, d := range xf.Decls {
					if fd, ok := d.(*FuncDecl); ok && fd.Name == name {
						name = fmt.Sprintf("X%d", i)
					}
				}
			}
			fd := g.genFunc(pkg, nil, name, nil, seen)
			xf.Decls = append(xf.Decls, fd)
		}
		g.inXTest = false
		// the external test package may dot-import the package under test (a common idiom),
		// unless one of its helpers carries a name that package exports
		clash := false
		for _, d := range xf.Decls {
			if fd, ok := d.(*FuncDecl); ok && !strings.HasPrefix(fd.Name, "X") {
				clash = true
			}
		}
		if !clash && g.chance("xtestDotImport", 35) {
			xf.DotImport = pkg
		}
		pkg.Files = append(pkg.Files, xf)
	}
}

func (g *gen) add(decls []Decl, d Decl) []Decl {
	g.cur = append(g.cur, d)
	return append(decls, d)
}

// writableBasics: the plainly typed fields of t that carry no @mutable.
func writableBasics(t *TypeDecl) []*Field {
	var out []*Field
	for _, f := range t.Fields {
		if f.Type == nil && !f.Mutable && !f.Embedded {
			out = append(out, f)
		}
	}
	return out
}

func isCtorOrAnnotated(fd *FuncDecl, types []*TypeDecl) bool {
	if fd.TestOnly || fd.PackageOnly != nil || fd.called {
		return true
	}
	for _, t := range types {
		if t.IsCtor(fd.Name) {
			return true
		}
	}
	return false
}

func typesOf(p *Pkg) []*TypeDecl {
	var out []*TypeDecl
	for _, f := range p.Files {
		for _, d := range f.Decls {
			if t, ok := d.(*TypeDecl); ok && t.AliasOf == nil {
				out = append(out, t)
			}
		}
	}
	return out
}

func funcsOf(p *Pkg) []*FuncDecl {
	var out []*FuncDecl
	for _, f := range p.Files {
		if f.Kind != FileRegular {
			continue
		}
		for _, d := range f.Decls {
			if t, ok := d.(*FuncDecl); ok {
				out = append(out, t)
			}
		}
	}
	return out
}

func (g *gen) genFields(td *TypeDecl, own []*TypeDecl, earlier []*Pkg) {
	add := func(f *Field) {
		f.ID = g.p.NewID()
		td.Fields = append(td.Fields, f)
	}
	add(&Field{Name: "X", Basic: "int"})
	if g.chance("fieldY", 50) {
		add(&Field{Name: "Y", Basic: "int"})
	}
	if g.chance("fieldS", 50) {
		add(&Field{Name: "S", Basic: "[]int"})
	}
	if g.chance("fieldM", 35) {
		add(&Field{Name: "M", Basic: "map[string]int"})
	}
	// nested named field (struct type declared earlier)
	var cands []*TypeDecl
	for _, o := range own {
		if o.Kind == KStruct {
			cands = append(cands, o)
		}
	}
	for _, ep := range earlier {
		for _, o := range typesOf(ep) {
			if o.Kind == KStruct && o.Exported() {
				cands = append(cands, o)
			}
		}
	}
	if len(cands) > 0 && g.chance("fieldIn", 40) {
		o := cands[g.pick("inType", len(cands))]
		ptr := g.chance("inPtr", 40)
		add(&Field{Name: "In", Type: o, Ptr: ptr, Ref: &TypeRef{Type: o, Ptr: ptr}})
	}
	// a field whose type is built from another struct type: []T, [2]T, map[string]*T, chan T
	if len(cands) > 0 && g.chance("fieldComposite", 15) {
		o := cands[g.pick("wType", len(cands))]
		ptr := g.chance("wPtr", 40)
		add(&Field{Name: "W", Type: o, Ptr: ptr, Ref: &TypeRef{Type: o, Ptr: ptr, Wrap: wraps[g.pick("wWrap", 4)]}})
	}
	if len(cands) > 0 && g.chance("fieldEmbedded", 25) {
		o := cands[g.pick("embType", len(cands))]
		ptr := g.chance("embPtr", 30)
		add(&Field{Name: o.Name, Type: o, Ptr: ptr, Embedded: true, Ref: &TypeRef{Type: o, Ptr: ptr}})
	}
	// one declaration with several names: P, Q int - a doc comment (@mutable) covers all of them
	if g.chance("multiNameField", 20) {
		add(&Field{Name: "P", Basic: "int", With: []string{"Q", "R"}})
		add(&Field{Name: "Q", Basic: "int", JoinPrev: true})
		add(&Field{Name: "R", Basic: "int", JoinPrev: true})
	}
	var lead *Field
	for _, f := range td.Fields {
		if f.Embedded {
			continue
		}
		if f.JoinPrev {
			f.Mutable = lead.Mutable
			continue
		}
		lead = f
		if g.chance("mutable", 25) {
			f.Mutable = true
		}
	}
}

// mapKey picks a named key type for map[K]T mentions: a defined int type that
// carries neither @testonly nor @packageonly (the key itself must stay silent)
func (g *gen) mapKey(ref *TypeRef, cands []*TypeDecl) {
	if ref.Wrap != "map[string]" || !g.chance("namedMapKey", 40) {
		return
	}
	var ks []*TypeDecl
	for _, k := range cands {
		if k.Kind == KInt && !k.TestOnly && k.PackageOnly == nil && (k.Exported() || k.Pkg == g.curPkg && !g.inXTest) {
			ks = append(ks, k)
		}
	}
	if len(ks) > 0 {
		ref.WrapKey = ks[g.pick("mapKeyType", len(ks))]
	}
}

// wraps: composite types built from a type mention (the first four fit fields and
// variables; parameters and results avoid the array, whose zero value is an instance)
var wraps = []string{"[]", "map[string]", "chan ", "[2]", "..."}

var docPrefixes = []string{"//", "//  ", "//\t", "// \t "}

func (g *gen) annotate(td *TypeDecl) {
	if g.consumer || g.chance("plainType", 12) {
		return // no annotation at all
	}
	if g.chance("docPrefix", 15) {
		td.DocPrefix = docPrefixes[g.pick("docPrefixIdx", len(docPrefixes))]
	}
	if g.has("imm") && g.chance("immutable", 65) {
		td.Immutable = true
	}
	if g.has("ctor") && g.chance("hasCtor", 65) || (g.o.Focus == "imm" && g.chance("immCtor", 50)) {
		n := rapid.IntRange(1, 3).Draw(g.t, "nctors")
		if g.chance("manyCtors", 20) {
			n = rapid.IntRange(4, 5).Draw(g.t, "nctorsMany")
		}
		names := []string{"New" + td.Name, "Mk" + td.Name, "Missing" + td.Name, "Build" + td.Name, "NewFrom" + td.Name}
		td.Constructors = names[:n]
		// spellings accepted by the grammar
		switch g.pick("ctorSpelling", 6) {
		case 0:
			td.CtorSpelling = strings.Join(td.Constructors, ",")
		case 1:
			td.CtorSpelling = strings.Join(td.Constructors, " , ")
		case 2:
			td.CtorSpelling = strings.Join(td.Constructors, ", ") + ","
		case 3:
			td.CtorSpelling = strings.Join(td.Constructors, ", ") + " - the only way to build it"
		case 4:
			td.CtorSpelling = strings.Join(td.Constructors, ",\t")
		}
		if n >= 2 && g.chance("ctorLines", 30) {
			td.CtorSplit = 1 + g.pick("ctorSplit", n-1)
		}
	}
	if g.has("tonl") && g.chance("testonly", 55) {
		td.TestOnly = true
	}
	if g.has("pkgo") && g.chance("packageonly", 55) {
		td.PackageOnly = g.allowLists()
	}
}

// allowLists draws 1-3 @packageonly lines.
func (g *gen) allowLists() [][]string {
	n := rapid.IntRange(1, 3).Draw(g.t, "npolines")
	var out [][]string
	for i := 0; i < n; i++ {
		k := rapid.IntRange(0, 3).Draw(g.t, "polen")
		line := []string{}
		for j := 0; j < k; j++ {
			pk := g.p.Pkgs[g.pick("poPkg", len(g.p.Pkgs))]
			pool := []pkgSpec{}
			pool = append(pool, pkgPool...)
			if g.chance("poFromAll", 50) {
				sp := pool[g.pick("poAny", len(pool))]
				pk = &Pkg{Dir: sp.dir, Name: sp.name}
			}
			switch g.pick("poForm", 5) {
			case 0:
				line = append(line, pk.Name)
			case 1:
				line = append(line, pk.Path())
			case 2:
				// near miss: a prefix of the path / name
				line = append(line, Module+"/"+pk.Dir[:len(pk.Dir)-1]+"q")
			case 3:
				line = append(line, pk.Name+"x")
			default:
				line = append(line, pk.Name)
			}
		}
		out = append(out, line)
	}
	return out
}

func (g *gen) genCtor(pkg *Pkg, td *TypeDecl, name string) *FuncDecl {
	fd := &FuncDecl{ID: g.p.NewID(), Name: name, Pkg: pkg}
	ptr := strings.HasPrefix(name, "New")
	fd.Results = []*TypeRef{{Type: td, Ptr: ptr}}
	fd.ResultIDs = []int{g.p.NewID()}
	sc := &scope{g: g, ptrParams: true}
	sc.addPar = func(v *Var) { fd.Params = append(fd.Params, v) }
	switch td.Kind {
	case KInt:
		if ptr {
			fd.RetSite = &Site{ID: g.p.NewID(), Kind: "new", Type: td, Ref: &TypeRef{Type: td}, Form: "return"}
		} else {
			fd.RetSite = &Site{ID: g.p.NewID(), Kind: "conv", Type: td, Ref: &TypeRef{Type: td}, Form: "return"}
		}
	default:
		// local := &T{} / T{} ; writes ; return local
		loc := &Var{Name: "t", Ref: &TypeRef{Type: td, Ptr: ptr}}
		kind := "lit"
		if ptr {
			kind = "litptr"
		}
		fd.Body = append(fd.Body, &Site{ID: g.p.NewID(), Kind: kind, Type: td, Ref: &TypeRef{Type: td}, Form: "define", Local: "t", LocalVar: loc})
		sc.vars = append(sc.vars, loc)
		if td.Kind == KStruct {
			n := rapid.IntRange(0, 3).Draw(g.t, "ctorWrites")
			for i := 0; i < n; i++ {
				if s := g.immSite(sc, td, loc); s != nil {
					fd.Body = append(fd.Body, g.maybeWrap(sc, s, 0))
				}
			}
		}
		fd.RetVar = loc
	}
	// a constructor of this type is an ordinary function for every other type
	if g.chance("ctorTouchesOthers", 40) {
		fd.Body = append(fd.Body, g.genBody(sc, pkg, g.curTypes, g.curEarlier, 1, false)...)
	}
	fd.done = true
	return fd
}

// immSite draws a write (or read) on a struct-typed operand.
func (g *gen) immSite(sc *scope, td *TypeDecl, o *Var) *Site {
	if td.Kind != KStruct || len(td.Fields) == 0 {
		return nil
	}
	var basics []*Field
	for _, f := range td.Fields {
		if f.Type == nil {
			basics = append(basics, f)
		}
	}
	f := basics[g.pick("field", len(basics))]
	s := &Site{ID: g.p.NewID(), Type: td, Field: f, Opnd: o}
	k := g.pick("immKind", 100)
	switch {
	case k < 22:
		s.Kind = "imm.assign"
	case k < 30:
		s.Kind = "imm.assignparen"
	case k < 34:
		s.Kind = "imm.tuple"
	case k < 38:
		s.Kind = "imm.tuple"
		for _, f2 := range basics {
			if f2 != f {
				s.Kind = "imm.tuple2"
				s.Field2 = f2
				break
			}
		}
	case k < 52 && f.Basic == "int":
		s.Kind = "imm.compound"
		s.Aux = []string{"+=", "-=", "*=", "|=", "<<=", "/=", "%=", "&=", "^=", ">>=", "&^="}[g.pick("op", 11)]
	case k < 66 && f.Basic == "int":
		s.Kind = "imm.incdec"
		s.Aux = []string{"++", "--"}[g.pick("incdec", 2)]
	case k < 80 && f.Basic != "int":
		s.Kind = "imm.index"
	case k < 90:
		s.Kind = "read.field"
	case k < 95 && f.Basic != "int":
		s.Kind = "read.index"
	default:
		s.Kind = "imm.assign"
	}
	switch s.Kind {
	case "imm.assign", "imm.compound", "imm.incdec", "imm.index":
		s.ParenTarget = g.chance("parenTarget", 8)
	case "imm.tuple", "imm.tuple2":
		// x.f, x.g = pair(): one multi-value expression on the right-hand side
		if g.chance("tupleFromCall", 40) {
			s.Aux = "call"
			if s.Kind == "imm.tuple" && g.chance("tupleSecond", 50) {
				s.Aux = "call1"
			}
		}
	}
	return s
}

// visibleTypes: own types and types of earlier packages.
func visibleTypes(own []*TypeDecl, earlier []*Pkg) []*TypeDecl {
	var out []*TypeDecl
	for _, t := range own {
		if t.Kind != KIface {
			out = append(out, t)
		}
	}
	for _, ep := range earlier {
		for _, t := range typesOf(ep) {
			if t.Exported() && t.Kind != KIface {
				out = append(out, t)
			}
		}
	}
	return out
}

func (g *gen) genFunc(pkg *Pkg, recvType *TypeDecl, name string, own []*TypeDecl, earlier []*Pkg) *FuncDecl {
	fd := &FuncDecl{ID: g.p.NewID(), Name: name, Pkg: pkg}
	sc := &scope{g: g}
	sc.addPar = func(v *Var) { fd.Params = append(fd.Params, v) }
	if recvType != nil {
		ptr := g.chance("recvPtr", 60)
		fd.Recv = &Var{Name: "r", Ref: &TypeRef{Type: recvType, Ptr: ptr}, ID: fd.ID}
		sc.vars = append(sc.vars, fd.Recv)
		sc.recv = fd.Recv
	}
	if g.chance("fnDocPrefix", 15) {
		fd.DocPrefix = docPrefixes[g.pick("docPrefixIdx", len(docPrefixes))]
	}
	if !g.inXTest && !g.consumer && g.has("tonl") && g.chance("fnTestOnly", 35) {
		fd.TestOnly = true
	}
	if !g.inXTest && !g.consumer && g.has("pkgo") && g.chance("fnPkgOnly", 35) {
		fd.PackageOnly = g.allowLists()
	}
	fd.Body = g.genBody(sc, pkg, own, earlier, 0, true)
	fd.done = true
	return fd
}

func (g *gen) genBody(sc *scope, pkg *Pkg, own []*TypeDecl, earlier []*Pkg, depth int, top bool) []Stmt {
	prev := g.sibling
	g.sibling = func() Stmt {
		st := g.genSite(sc, pkg, own, earlier)
		if _, ok := st.(*Site); ok {
			return st
		}
		return nil
	}
	defer func() { g.sibling = prev }()
	n := rapid.IntRange(1, 5).Draw(g.t, "nstmts")
	if depth > 0 {
		n = rapid.IntRange(1, 2).Draw(g.t, "nstmtsInner")
	}
	var body []Stmt
	for i := 0; i < n; i++ {
		s := g.genSite(sc, pkg, own, earlier)
		if s == nil {
			continue
		}
		// two simple sites on one source line (gofmt would split them)
		if a, ok := s.(*Site); ok && g.oneLinerOK(a) && g.chance("oneLiner", 12) {
			if s2 := g.genSite(sc, pkg, own, earlier); s2 != nil {
				if b, ok := s2.(*Site); ok && g.oneLinerOK(b) {
					body = append(body, g.maybeWrap(sc, &OneLiner{Sites: []*Site{a, b}}, depth))
					continue
				}
				body = append(body, g.maybeWrap(sc, s2, depth))
			}
		}
		body = append(body, g.maybeWrap(sc, s, depth))
	}
	return body
}

// maybeWrap nests the site in 0-3 wrappers.
func (g *gen) maybeWrap(sc *scope, s Stmt, depth int) Stmt {
	for d := depth; d < 3; d++ {
		if !g.chance("wrap", 35) {
			break
		}
		k := WrapKind(g.pick("wrapKind", int(WClosureParams))) // closureparams handled separately
		w := &Wrap{Kind: k, Body: []Stmt{s}}
		// a sibling statement before or after, so that "the following statement" is not the whole body
		if g.sibling != nil && g.chance("wrapSibling", 30) {
			gen := g.sibling
			g.sibling = nil // no recursion
			if sib := gen(); sib != nil {
				if g.chance("siblingFirst", 50) {
					w.Body = []Stmt{sib, s}
				} else {
					w.Body = []Stmt{s, sib}
				}
			}
			g.sibling = gen
		}
		if k == WVarClosure {
			g.vseq++
			w.Name = fmt.Sprintf("fn%d", g.vseq)
		}
		s = w
	}
	return s
}

// genSite draws one site for a function / closure body.
func (g *gen) genSite(sc *scope, pkg *Pkg, own []*TypeDecl, earlier []*Pkg) Stmt {
	vis := visibleTypes(own, earlier)
	if len(vis) == 0 {
		return nil
	}
	td := vis[g.pick("siteType", len(vis))]
	fam := g.pick("family", 100)
	focus := g.o.Focus
	if focus == "none" {
		focus = "all" // every site family, no annotations
	}
	switch {
	case focus == "imm" && fam < 70, focus == "ctor" && fam < 15, focus == "all" && fam < 30, focus == "tonl" && fam < 8, focus == "pkgo" && fam < 8:
		return g.immFamily(sc, td, vis)
	case focus == "imm" && fam < 90, focus == "ctor" && fam < 90, focus == "all" && fam < 60, focus == "tonl" && fam < 50, focus == "pkgo" && fam < 50:
		return g.ctorFamily(sc, td)
	default:
		return g.callFamily(sc, pkg, td, own, earlier)
	}
}

// shadowDecoy: inside a method, a closure whose pointer parameter carries the
// receiver's name and is overwritten - not a receiver overwrite.
func (g *gen) shadowDecoy(sc *scope, vis []*TypeDecl) Stmt {
	var st []*TypeDecl
	for _, v := range vis {
		if v.Kind == KStruct {
			st = append(st, v)
		}
	}
	if len(st) == 0 || sc.recv == nil {
		return nil
	}
	u := st[g.pick("shadowType", len(st))]
	pv := &Var{Name: sc.recv.Name, Ref: &TypeRef{Type: u, Ptr: true}, ID: g.p.NewID(), Shadow: true}
	site := &Site{ID: g.p.NewID(), Kind: "ptr.assign", Type: u, Ref: &TypeRef{Type: u}, Opnd: pv}
	return &Wrap{Kind: WClosureParams, Params: []*Var{pv}, Body: []Stmt{site}}
}

func (g *gen) immFamily(sc *scope, td *TypeDecl, vis []*TypeDecl) Stmt {
	if sc.recv != nil && g.chance("shadowDecoy", 12) {
		if s := g.shadowDecoy(sc, vis); s != nil {
			return s
		}
	}
	// receiver forms when inside a method with pointer receiver
	if sc.recv != nil && sc.recv.IsPtr() && g.chance("recvForm", 30) {
		rt := sc.recv.Ref.Type
		if rt.Kind == KInt && g.chance("recvIncDec", 50) {
			return &Site{ID: g.p.NewID(), Kind: "imm.recvincdec", Type: rt, Opnd: sc.recv, Aux: []string{"++", "--"}[g.pick("incdec", 2)], ParenTarget: g.chance("parenTarget", 8)}
		}
		if rt.Kind == KInt || rt.Kind == KStruct {
			return &Site{ID: g.p.NewID(), Kind: "imm.recvassign", Type: rt, Ref: &TypeRef{Type: rt}, Opnd: sc.recv, ParenTarget: g.chance("parenTarget", 8)}
		}
	}
	if td.Kind != KStruct {
		// pick a struct type instead
		var st []*TypeDecl
		for _, v := range vis {
			if v.Kind == KStruct {
				st = append(st, v)
			}
		}
		if len(st) == 0 {
			return nil
		}
		td = st[g.pick("structType", len(st))]
	}
	// promoted: the operand is a wrapper that embeds a struct; the written field
	// is one the wrapper does not declare itself (w.f selects the embedded value's f)
	if g.chance("promotedField", 12) {
		for _, w := range vis {
			if w.Kind != KStruct || w.Immutable {
				continue
			}
			// fields reachable through the chain of embedded structs (up to three
			// levels, by value or by pointer at any hop); a name declared at a
			// shallower level hides the deeper ones
			type prom struct {
				f      *Field
				holder *TypeDecl
				depth  int
			}
			var promoted []prom
			seen := map[string]bool{}
			for _, wf := range w.Fields {
				seen[wf.Name] = true
			}
			cur := w
			for depth := 1; depth <= 3; depth++ {
				var ef *Field
				for _, cf := range cur.Fields {
					if cf.Embedded && cf.Type != nil && cf.Type.Kind == KStruct {
						ef = cf
						break
					}
				}
				if ef == nil {
					break
				}
				for _, bf := range ef.Type.Fields {
					if bf.Type == nil && !seen[bf.Name] {
						promoted = append(promoted, prom{bf, ef.Type, depth})
					}
				}
				for _, bf := range ef.Type.Fields {
					seen[bf.Name] = true
				}
				cur = ef.Type
			}
			if len(promoted) == 0 {
				continue
			}
			// prefer the deepest chain available
			pick := promoted[g.pick("promotedF", len(promoted))]
			for _, pr := range promoted {
				if pr.depth > pick.depth && g.chance("deeper", 70) {
					pick = pr
				}
			}
			f := pick.f
			o := sc.operand(w, g.chance("optr", 60), false)
			s := &Site{ID: g.p.NewID(), Type: pick.holder, Field: f, Opnd: o, Kind: "imm.assign"}
			switch k := g.pick("promotedKind", 10); {
			case k < 3 && f.Basic == "int":
				s.Kind, s.Aux = "imm.incdec", "++"
			case k < 5 && f.Basic == "int":
				s.Kind, s.Aux = "imm.compound", "+="
			case k < 8 && f.Basic != "int":
				s.Kind = "imm.index"
			}
			return s
		}
	}
	// nested: operand is a wrapper whose field In has type td
	if g.chance("nested", 15) {
		for _, w := range vis {
			if w.Kind != KStruct {
				continue
			}
			if in := w.FieldByName("In"); in != nil && in.Type != nil && in.Type.Kind == KStruct {
				o := sc.operand(w, g.chance("optr", 60), false)
				inner := in.Type
				var basics []*Field
				for _, f := range inner.Fields {
					if f.Type == nil {
						basics = append(basics, f)
					}
				}
				f := basics[g.pick("nfield", len(basics))]
				return &Site{ID: g.p.NewID(), Kind: "imm.nested", Type: inner, Field: f, Opnd: o, Aux: "In"}
			}
		}
	}
	o := sc.operand(td, g.chance("optr", 60), false)
	s := g.immSite(sc, td, o)
	if s == nil {
		return nil
	}
	return s
}

func (g *gen) localName() string {
	g.vseq++
	return fmt.Sprintf("v%d", g.vseq)
}

func (g *gen) ctorFamily(sc *scope, td *TypeDecl) Stmt {
	// prefer a named container of the current package now and then: its elided
	// element literals instantiate a type the file need not name
	if td.Elem == nil && !g.inXTest && g.chance("preferContainer", 12) {
		for _, d := range g.cur {
			if ct, ok := d.(*TypeDecl); ok && ct.Elem != nil {
				td = ct
				break
			}
		}
	}
	if td.Elem != nil {
		return &Site{ID: g.p.NewID(), Kind: "elided.named", Type: td.Elem.Type, Ref: &TypeRef{Type: td}}
	}
	// T{In: U{}}: a literal nested in a literal
	if td.Kind == KStruct && g.chance("nestedLit", 15) {
		if in := td.FieldByName("In"); in != nil && in.Type != nil && in.Type.Kind == KStruct && !in.Embedded && (in.Type.Exported() || (in.Type.Pkg == g.curPkg && !g.inXTest)) {
			return &Site{ID: g.p.NewID(), Kind: "lit.nested", Type: td, Ref: &TypeRef{Type: td}, Field: in}
		}
	}
	// decoy: a function-local type that shares the name of a package-level type
	// of this package: its literals, variables and field writes concern an
	// unannotated type (every line must stay silent; filler lines are untagged,
	// a diagnostic on them is a stray one)
	if td.Kind == KStruct && sc != nil && td.Pkg == g.curPkg && !g.inXTest && g.chance("localTypeDecoy", 5) {
		n := td.Name
		return &Wrap{Kind: WBlock, Body: []Stmt{
			&Filler{Text: "type " + n + " struct{ X int }"},
			&Site{ID: g.p.NewID(), Kind: "raw", Aux: "lv := " + n + "{}"},
			&Site{ID: g.p.NewID(), Kind: "raw", Aux: "lv.X = 1"},
			&Site{ID: g.p.NewID(), Kind: "raw", Aux: "lv.X++"},
			&Site{ID: g.p.NewID(), Kind: "raw", Aux: "_ = new(" + n + ")"},
			&Filler{Text: "var lw " + n},
			&Site{ID: g.p.NewID(), Kind: "raw", Aux: "_ = []" + n + "{lw, {}}"},
		}}
	}
	// decoy: a local function named new shadows the builtin; calling it with a
	// value of the annotated type allocates nothing
	if td.Kind == KStruct && sc != nil && g.chance("shadowedNew", 5) {
		o := sc.operand(td, g.chance("optr", 50), false)
		return &Wrap{Kind: WBlock, Body: []Stmt{
			&Filler{Text: "new := func(v interface{}) int { return 0 }"},
			&Site{ID: g.p.NewID(), Kind: "decoynew", Opnd: o},
		}}
	}
	// declarations and empty literals of composite types built from td
	if td.Kind == KStruct && g.chance("compositeUse", 10) {
		ref := &TypeRef{Type: td, Ptr: g.chance("cPtr", 40), Wrap: wraps[g.pick("cWrap", 3)]}
		g.mapKey(ref, visibleTypes(g.curTypes, g.curEarlier))
		if ref.Wrap == "chan " || g.chance("cVar", 50) {
			return &Site{ID: g.p.NewID(), Kind: "var.composite", Type: td, Ref: ref, Local: g.localName()}
		}
		return &Site{ID: g.p.NewID(), Kind: "lit.composite", Type: td, Ref: ref}
	}
	s := &Site{ID: g.p.NewID(), Type: td, Ref: &TypeRef{Type: td}}
	k := g.pick("ctorKind", 100)
	lits := td.Kind != KInt
	switch {
	case k < 18 && lits:
		s.Kind = "lit"
	case k < 30 && lits:
		s.Kind = "litptr"
	case k < 38 && lits:
		s.Kind = "elided.slice"
	case k < 44 && lits:
		s.Kind = "elided.ptrslice"
	case k < 50 && lits:
		s.Kind = "elided.map"
	case k < 64:
		s.Kind = "new"
	case k < 78:
		s.Kind = "var"
		s.Local = g.localName()
	case k < 83:
		s.Kind = "var2"
		s.Local = g.localName()
	case k < 90:
		s.Kind = "varptr"
		s.Local = g.localName()
	case k < 94:
		s.Kind = "varblank"
	case k < 100:
		// typed var initialised by a value constructor
		if mk := g.findFunc(td.Pkg, "Mk"+td.Name); mk != nil && td.IsCtor(mk.Name) {
			s.Kind = "varinit"
			if g.chance("infer", 40) {
				s.Kind = "varinfer"
			}
			s.Fn = mk
			s.Local = g.localName()
		} else {
			s.Kind = "new"
		}
	default:
		s.Kind = "new"
	}
	if s.Kind == "new" {
		s.ParenCallee = g.chance("parenNew", 8) // (new)(T)
	}
	if s.Kind == "lit" || s.Kind == "litptr" || s.Kind == "new" {
		if g.chance("defineForm", 35) {
			s.Form = "define"
			s.Local = g.localName()
		}
	}
	// a literal wrapped over two lines: T{ <newline> } - reported where it begins
	if s.Kind == "lit" || s.Kind == "litptr" {
		s.Multi = g.chance("multiLineLiteral", 15)
	}
	return s
}

func (g *gen) findFunc(p *Pkg, name string) *FuncDecl {
	if p == g.curPkg {
		for _, d := range g.cur {
			if fd, ok := d.(*FuncDecl); ok && fd.Name == name && fd.Recv == nil {
				return fd
			}
		}
		return nil
	}
	for _, f := range p.Files {
		for _, d := range f.Decls {
			if fd, ok := d.(*FuncDecl); ok && fd.Name == name && fd.Recv == nil {
				return fd
			}
		}
	}
	return nil
}

func methodsOf(t *TypeDecl) []*FuncDecl {
	var out []*FuncDecl
	for _, f := range t.Pkg.Files {
		if f.Kind != FileRegular {
			continue
		}
		for _, d := range f.Decls {
			if fd, ok := d.(*FuncDecl); ok && fd.Recv != nil && fd.Recv.Ref.Type == t {
				out = append(out, fd)
			}
		}
	}
	return out
}

// allMethodsOf also sees methods declared in _test.go files of the package.
func allMethodsOf(t *TypeDecl) []*FuncDecl {
	var out []*FuncDecl
	for _, f := range t.Pkg.Files {
		for _, d := range f.Decls {
			if fd, ok := d.(*FuncDecl); ok && fd.Recv != nil && fd.Recv.Ref.Type == t {
				out = append(out, fd)
			}
		}
	}
	return out
}

// callFamily: calls / references of functions and methods of earlier packages
// (own-package functions are still being generated, so only earlier ones).
func (g *gen) callFamily(sc *scope, pkg *Pkg, td *TypeDecl, own []*TypeDecl, earlier []*Pkg) Stmt {
	var fns, ms []*FuncDecl
	consider := func(fd *FuncDecl) {
		for _, p := range fd.Params {
			if p.Ref != nil && !p.Ref.Ptr && p.Ref.Wrap == "" && p.Ref.Type.Kind == KStruct {
				return // would need a struct value argument
			}
		}
		if fd.Recv == nil {
			fns = append(fns, fd)
		} else if fd.Recv.Ref.Type.Exported() || (fd.Pkg == pkg && !g.inXTest) {
			ms = append(ms, fd)
		}
	}
	for _, ep := range earlier {
		for _, fd := range funcsOf(ep) {
			consider(fd)
		}
	}
	for _, d := range g.cur {
		if fd, ok := d.(*FuncDecl); ok && fd.done {
			consider(fd)
		}
	}
	k := g.pick("callKind", 100)
	// decoy: a local closure that merely shares the name of a @testonly function of this package
	if g.has("tonl") && g.chance("nameDecoy", 12) {
		for _, d := range g.cur {
			if fd, ok := d.(*FuncDecl); ok && fd.done && fd.Recv == nil && fd.TestOnly {
				return &Wrap{Kind: WBlock, Body: []Stmt{
					&Filler{Text: fd.Name + " := func() {}"},
					&Site{ID: g.p.NewID(), Kind: "decoycall", Aux: fd.Name},
				}}
			}
		}
	}
	// method promoted through an embedded field: w.M() where w's type embeds the method's type
	if g.chance("promotedCall", 12) {
		for _, w := range visibleTypes(own, earlier) {
			if w.Kind != KStruct {
				continue
			}
			for _, f := range w.Fields {
				if !f.Embedded || f.Type == nil {
					continue
				}
				ownNames := map[string]bool{}
				for _, fl := range w.Fields {
					ownNames[fl.Name] = true
				}
				wm := allMethodsOf(w)
				if w.Pkg == pkg {
					for _, d := range g.cur {
						if fd, ok := d.(*FuncDecl); ok && fd.Recv != nil && fd.Recv.Ref.Type == w {
							wm = append(wm, fd)
						}
					}
				}
				for _, m := range wm {
					ownNames[m.Name] = true
				}
				tm := methodsOf(f.Type)
				if f.Type.Pkg == pkg {
					tm = nil
					for _, d := range g.cur {
						if fd, ok := d.(*FuncDecl); ok && fd.done && fd.Recv != nil && fd.Recv.Ref.Type == f.Type {
							tm = append(tm, fd)
						}
					}
				}
				for _, m := range tm {
					okArgs := true
					for _, pv := range m.Params {
						if pv.Ref != nil && !pv.Ref.Ptr && pv.Ref.Type.Kind == KStruct {
							okArgs = false
						}
					}
					// a pointer-receiver method needs an addressable / pointer path to the embedded value
					if ownNames[m.Name] || !okArgs || (w.Pkg == pkg && !w.methodsClosed) {
						continue
					}
					m.called = true
					o := sc.operand(w, true, true)
					return &Site{ID: g.p.NewID(), Kind: "mcall.promoted", Fn: m, Opnd: o}
				}
			}
		}
	}
	switch {
	case k < 40 && len(fns) > 0:
		fd := fns[g.pick("fn", len(fns))]
		fd.called = true
		kind := "call"
		if g.chance("funcvalue", 15) {
			kind = "funcvalue"
		}
		// F(&T{}): an instantiation nested in the argument list of a call
		if kind == "call" && !fd.Generic && g.chance("argLiteral", 40) {
			for _, pv := range fd.Params {
				if pv.Ref != nil && pv.Ref.Ptr && pv.Ref.Wrap == "" && pv.Ref.Type.Kind == KStruct && pv.Ref.Type.AliasOf == nil &&
					(pv.Ref.Type.Exported() || (pv.Ref.Type.Pkg == pkg && !g.inXTest)) {
					return &Site{ID: g.p.NewID(), Kind: "call.arglit", Fn: fd, Type: pv.Ref.Type, Ref: &TypeRef{Type: pv.Ref.Type}, Opnd: pv}
				}
			}
		}
		return &Site{ID: g.p.NewID(), Kind: kind, Fn: fd, Inst: fd.Generic && g.chance("explicitInstance", 50), ParenCallee: kind == "call" && g.chance("parenCallee", 12)}
	case k < 85 && len(ms) > 0:
		fd := ms[g.pick("method", len(ms))]
		var fluent []*FuncDecl
		for _, m := range ms {
			if m.Fluent {
				fluent = append(fluent, m)
			}
		}
		if len(fluent) > 0 && g.chance("preferFluent", 35) {
			fd = fluent[g.pick("fluentIdx", len(fluent))]
		}
		fd.called = true
		rt := fd.Recv.Ref.Type
		o := sc.operand(rt, fd.Recv.IsPtr(), true)
		kk := g.pick("mkind", 100)
		s := &Site{ID: g.p.NewID(), Fn: fd, Opnd: o, Type: rt, Ref: &TypeRef{Type: rt}}
		if fd.Fluent && g.chance("chain", 70) {
			var next []*FuncDecl
			for _, m := range ms {
				if m.Fluent && m.Recv.Ref.Type == rt {
					next = append(next, m)
				}
			}
			s.Kind, s.Type, s.Ref = "mcall.chain", nil, nil
			s.Fn2 = next[g.pick("chainNext", len(next))]
			s.Fn2.called = true
			return s
		}
		switch {
		case kk < 60:
			s.Kind = "mcall"
			s.Type, s.Ref = nil, nil
			s.ParenCallee = g.chance("parenCallee", 12)
		case kk < 72:
			s.Kind = "mvalue"
			s.Type, s.Ref = nil, nil
		case kk < 84:
			s.Kind = "mexpr"
		default:
			s.Kind = "mexprcall"
		}
		return s
	}
	return g.ctorFamily(sc, td)
}

// genPkgVarSite draws a one-line package-level var declaration site.
func (g *gen) genPkgVarSite(pkg *Pkg, name string, own []*TypeDecl, earlier []*Pkg) *Site {
	vis := visibleTypes(own, earlier)
	td := vis[g.pick("pvType", len(vis))]
	if td.Elem != nil {
		return &Site{ID: g.p.NewID(), Kind: "elided.named", Type: td.Elem.Type, Ref: &TypeRef{Type: td}, Local: name, Form: "pkgvar"}
	}
	if td.Kind == KStruct && g.chance("pvComposite", 10) {
		return &Site{ID: g.p.NewID(), Kind: "var.composite", Type: td, Ref: &TypeRef{Type: td, Ptr: g.chance("cPtr", 40), Wrap: wraps[g.pick("cWrap", 4)]}, Local: name, Form: "pkgvar"}
	}
	s := &Site{ID: g.p.NewID(), Type: td, Ref: &TypeRef{Type: td}, Local: name, Form: "pkgvar"}
	k := g.pick("pvKind", 100)
	lits := td.Kind != KInt
	switch {
	case k < 25:
		s.Kind = "var"
	case k < 35:
		s.Kind = "varptr"
	case k < 40:
		s.Kind = "var2"
	case k < 60 && lits:
		s.Kind = "lit"
	case k < 72 && lits:
		s.Kind = "litptr"
	case k < 80 && lits:
		s.Kind = "elided.slice"
	case k < 92:
		s.Kind = "new"
	default:
		s.Kind = "varblank"
	}
	return s
}

// genIndirect builds (a) a helper `func hN() *d.T { return nil }` plus a user
// function whose only route to d.T is hN(), and (b) a function whose parameter
// carries the name of d's qualifier.
func (g *gen) genIndirect(pkg *Pkg, earlier []*Pkg, n int) []Decl {
	var cands []*TypeDecl
	for _, ep := range earlier {
		for _, t := range typesOf(ep) {
			if t.Kind == KStruct {
				cands = append(cands, t)
			}
		}
	}
	if len(cands) == 0 {
		return nil
	}
	t := cands[g.pick("indType", len(cands))]
	var out []Decl
	sitesOn := func(o *Var, sc *scope) []Stmt {
		var body []Stmt
		k := rapid.IntRange(1, 3).Draw(g.t, "indSites")
		for i := 0; i < k; i++ {
			ms := methodsOf(t)
			if len(ms) > 0 && g.chance("indMethod", 60) {
				fd := ms[g.pick("indM", len(ms))]
				ok := true
				for _, p := range fd.Params {
					if p.Ref != nil && (!p.Ref.Ptr && p.Ref.Type.Kind == KStruct || !p.Ref.Type.Exported() && p.Ref.Type.Pkg != pkg) {
						ok = false
					}
				}
				if ok {
					fd.called = true
					kind := "mcall"
					if g.chance("indMValue", 20) {
						kind = "mvalue"
					}
					body = append(body, g.maybeWrap(sc, &Site{ID: g.p.NewID(), Kind: kind, Fn: fd, Opnd: o}, 1))
					continue
				}
			}
			if s := g.immSite(sc, t, o); s != nil {
				body = append(body, g.maybeWrap(sc, s, 1))
			}
		}
		return body
	}
	// a helper of an earlier package that hands out a type of a third package:
	// the user need not import the package that declares (and annotates) the type
	if g.chance("foreignHelper", 55) {
		var hs []*FuncDecl
		for _, ep := range earlier {
			for _, f := range ep.Files {
				if f.Kind != FileRegular {
					continue
				}
				for _, d := range f.Decls {
					if fd, ok := d.(*FuncDecl); ok && fd.Recv == nil && strings.HasPrefix(fd.Name, "H") && len(fd.Params) == 0 && len(fd.Results) == 1 &&
						fd.Results[0].Ptr && fd.Results[0].Type.Exported() && fd.Results[0].Type.Pkg != ep && fd.Results[0].Type.Kind == KStruct {
						hs = append(hs, fd)
					}
				}
			}
		}
		if len(hs) > 0 {
			h := hs[g.pick("foreignH", len(hs))]
			t = h.Results[0].Type
			u := &FuncDecl{ID: g.p.NewID(), Name: fmt.Sprintf("Fh%d", n), Pkg: pkg, done: true}
			sc := &scope{g: g}
			sc.addPar = func(v *Var) { u.Params = append(u.Params, v) }
			o := &Var{Name: "_", Ref: &TypeRef{Type: t, Ptr: true}, CallOf: h}
			u.Body = sitesOn(o, sc)
			return []Decl{u}
		}
	}
	if !t.Exported() {
		// reachable only through the declaring package's exported getter
		getter := g.findFunc(t.Pkg, "Get"+strings.ToUpper(t.Name[:1])+t.Name[1:])
		if getter == nil {
			return nil
		}
		u := &FuncDecl{ID: g.p.NewID(), Name: fmt.Sprintf("Fu%d", n), Pkg: pkg, done: true}
		sc := &scope{g: g}
		sc.addPar = func(v *Var) { u.Params = append(u.Params, v) }
		o := &Var{Name: "_", Ref: &TypeRef{Type: t, Ptr: true}, CallOf: getter}
		u.Body = sitesOn(o, sc)
		return []Decl{u}
	}
	sitesOnOld := func(o *Var, sc *scope) []Stmt {
		var body []Stmt
		k := rapid.IntRange(1, 3).Draw(g.t, "indSites")
		for i := 0; i < k; i++ {
			ms := methodsOf(t)
			if len(ms) > 0 && g.chance("indMethod", 60) {
				fd := ms[g.pick("indM", len(ms))]
				ok := true
				for _, p := range fd.Params {
					if p.Ref != nil && !p.Ref.Ptr && p.Ref.Type.Kind == KStruct {
						ok = false
					}
				}
				if ok {
					fd.called = true
					kind := "mcall"
					if g.chance("indMValue", 20) {
						kind = "mvalue"
					}
					body = append(body, g.maybeWrap(sc, &Site{ID: g.p.NewID(), Kind: kind, Fn: fd, Opnd: o}, 1))
					continue
				}
			}
			if s := g.immSite(sc, t, o); s != nil {
				body = append(body, g.maybeWrap(sc, s, 1))
			}
		}
		return body
	}
	_ = sitesOnOld
	if g.chance("viaHelper", 60) {
		h := &FuncDecl{ID: g.p.NewID(), Name: fmt.Sprintf("H%d", n), Pkg: pkg, done: true, called: true}
		h.Results = []*TypeRef{{Type: t, Ptr: true}}
		h.ResultIDs = []int{g.p.NewID()}
		h.RetExpr = "nil"
		u := &FuncDecl{ID: g.p.NewID(), Name: fmt.Sprintf("Fi%d", n), Pkg: pkg, done: true}
		sc := &scope{g: g}
		sc.addPar = func(v *Var) { u.Params = append(u.Params, v) }
		o := &Var{Name: "_", Ref: &TypeRef{Type: t, Ptr: true}, CallOf: h}
		u.Body = sitesOn(o, sc)
		out = append(out, h, u)
	} else {
		u := &FuncDecl{ID: g.p.NewID(), Name: fmt.Sprintf("Fs%d", n), Pkg: pkg, done: true}
		sc := &scope{g: g}
		sc.addPar = func(v *Var) { u.Params = append(u.Params, v) }
		o := &Var{Name: "_", Ref: &TypeRef{Type: t, Ptr: true}, PkgNamed: t.Pkg, ID: g.p.NewID()}
		u.Params = append(u.Params, o)
		u.Body = sitesOn(o, sc)
		out = append(out, u)
	}
	return out
}

// oneLinerOK: sites that render as a single statement without filler lines.
func (g *gen) oneLinerOK(s *Site) bool {
	if s.Form != "" || s.Multi {
		return false
	}
	switch s.Kind {
	case "imm.assign", "imm.assignparen", "imm.tuple", "imm.tuple2", "imm.compound", "imm.incdec", "imm.index", "imm.nested", "imm.recvassign", "imm.recvincdec",
		"lit", "litptr", "elided.slice", "new", "call", "mcall", "read.field":
		return true
	}
	return false
}
