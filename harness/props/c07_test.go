package props

import (
	"encoding/json"
	"fmt"
	"regexp"
	"sort"
	"strings"
	"testing"

	"pgregory.net/rapid"

	"verif/harness/engine"
	"verif/harness/ev"
	"verif/harness/proggen"
)

// c07Case is the replayable form: base sources, sources with the comment, the
// scope (file + inclusive line range in the commented program), the code
// tokens, and the once-per-file successor groups.
type c07Case struct {
	Pkgs    []string          `json:"pkgs"`
	Base    map[string]string `json:"base"`
	With    map[string]string `json:"with_comment"`
	File    string            `json:"scope_file"`
	Lo      int               `json:"scope_first_line"`
	Hi      int               `json:"scope_last_line"`
	Tokens  []string          `json:"tokens"` // upper-cased code tokens of the comment
	Comment string            `json:"comment"`
	Place   string            `json:"placement"`
	More    []c07Comment      `json:"more_comments,omitempty"` // further inserted comments (same program)
	// for a suppressed once-per-file report at site S (key "sN CODE"): the
	// ordered later mentions of that type in the file: site ids; Judged marks
	// mentions the property statement lists.
	Successors map[string][]c07Succ `json:"once_per_file_successors"`
	// a line reporting the code for several types (T{In: U{}}) has one list per further type
	MoreSuccessors map[string][][]c07Succ `json:"once_per_file_successors_more,omitempty"`
}

type c07Comment struct {
	File    string   `json:"scope_file"`
	Lo      int      `json:"scope_first_line"`
	Hi      int      `json:"scope_last_line"`
	Tokens  []string `json:"tokens"`
	Comment string   `json:"comment"`
	Place   string   `json:"placement"`
}

type c07Succ struct {
	Site   int  `json:"site"`
	Judged bool `json:"judged"`
}

func c07Matches(tokens []string, code string) bool {
	for _, t := range tokens {
		if refTokenMatches(t, code) {
			return true
		}
	}
	return false
}

// c07Evaluate runs both programs and applies the metamorphic relation.
func c07Evaluate(c c07Case) string {
	cfg := engine.DefaultConfig()
	ra, _, err := engine.RunInproc(enginePkgs(c.Pkgs, c.Base), cfg, engine.Options{Sequential: true})
	if err != nil {
		return "load base: " + err.Error()
	}
	rb, _, err := engine.RunInproc(enginePkgs(c.Pkgs, c.With), cfg, engine.Options{Sequential: true})
	if err != nil {
		return "load commented: " + err.Error()
	}
	if len(ra.Panics)+len(rb.Panics) > 0 {
		return fmt.Sprintf("analyzer panicked: %v %v", ra.Panics, rb.Panics)
	}
	base := keyCounts(siteKeys(c.Base, ra.Diags, 0, nil, true))
	got := keyCounts(siteKeys(c.With, rb.Diags, 0, nil, true))
	// where is each tagged site in the commented program?
	where := map[int][2]interface{}{}
	for file, src := range c.With {
		for i, l := range strings.Split(src, "\n") {
			for _, m := range tagLineRe.FindAllStringSubmatch(l, -1) {
				var id int
				fmt.Sscanf(m[1], "%d", &id)
				where[id] = [2]interface{}{file, i + 1}
			}
		}
	}
	comments := append([]c07Comment{{File: c.File, Lo: c.Lo, Hi: c.Hi, Tokens: c.Tokens}}, c.More...)
	suppressed := func(site int, code string) bool {
		w, ok := where[site]
		if !ok {
			return false
		}
		for _, cm := range comments {
			if w[0].(string) == cm.File && w[1].(int) >= cm.Lo && w[1].(int) <= cm.Hi && c07Matches(cm.Tokens, code) {
				return true
			}
		}
		return false
	}
	want := map[string]int{}
	open := map[string]bool{}
	var groups [][]string // exactly one of each group
	var atMostOne [][]string
	succKey := func(k string, n int) string {
		if n > 1 {
			return fmt.Sprintf("%s (x%d)", k, n)
		}
		return k
	}
	for k, n := range base {
		var site int
		var code string
		if _, err := fmt.Sscanf(k, "s%d %s", &site, &code); err != nil {
			want[k] = n // untagged line: must stay
			continue
		}
		if !suppressed(site, code) {
			want[k] = n
			continue
		}
		// suppressed. once-per-file codes move to the next unsuppressed use (one list per reported type).
		if code == "TONL01" || code == "PKGO01" {
			sk := succKey(k, n)
			for _, list := range append([][]c07Succ{c.Successors[sk]}, c.MoreSuccessors[sk]...) {
				var grp []string
				judgedFound := false
				for _, s := range list {
					if suppressed(s.Site, code) {
						continue
					}
					grp = append(grp, fmt.Sprintf("s%d %s", s.Site, code))
					if s.Judged {
						judgedFound = true
						break
					}
				}
				if judgedFound {
					groups = append(groups, grp)
				} else if len(grp) > 0 {
					atMostOne = append(atMostOne, grp)
				}
			}
		}
	}
	// the moved reports may land on lines that already carry the code for
	// another type, so the attribution is searched (proggen.Feasible)
	for _, g := range atMostOne {
		for _, k := range g {
			open[k] = true
		}
	}
	if proggen.Feasible(got, want, open, groups) {
		for _, g := range atMostOne {
			n, w := 0, 0
			for _, k := range g {
				n += got[k]
				w += want[k]
			}
			if n > w+len(atMostOne) {
				return fmt.Sprintf("once-per-file report duplicated among %v", g)
			}
		}
		return ""
	}
	var probs []string
	inGroup := map[string]bool{}
	for _, g := range groups {
		n, w := 0, 0
		for _, k := range g {
			inGroup[k] = true
			n += got[k]
			w += want[k]
		}
		if n-w != 1 {
			probs = append(probs, fmt.Sprintf("once-per-file report should move to the next unsuppressed use %v: reported %d times", g, n-w))
		}
	}
	for k, w := range want {
		if got[k] < w {
			probs = append(probs, "lost (not matched by the comment or outside its scope): "+k)
		}
	}
	for k, n := range got {
		if n > want[k] && !open[k] && !inGroup[k] {
			if base[k] >= n {
				probs = append(probs, "not suppressed although in scope and matched: "+k)
			} else {
				probs = append(probs, "new diagnostic appeared: "+k)
			}
		}
	}
	if len(probs) == 0 {
		var diff []string
		for k, n := range got {
			if n != want[k] {
				diff = append(diff, fmt.Sprintf("%s got=%d kept=%d", k, n, want[k]))
			}
		}
		sort.Strings(diff)
		probs = append(probs, fmt.Sprintf("new diagnostic appeared or report lost: moved once-per-file reports cannot be attributed: %v with groups %v open %v", diff, groups, atMostOne))
	}
	sort.Strings(probs)
	return strings.Join(probs, "; ")
}

var xnRe = regexp.MustCompile(`^(.*) \(x(\d+)\)$`)

// keyCounts turns the "key (xN)" spelling of siteKeys into counts.
func keyCounts(m map[string]bool) map[string]int {
	out := map[string]int{}
	for k := range m {
		if mm := xnRe.FindStringSubmatch(k); mm != nil {
			n := 0
			fmt.Sscanf(mm[2], "%d", &n)
			out[mm[1]] = n
		} else {
			out[k] = 1
		}
	}
	return out
}

func init() {
	replayers["c07"] = func(data json.RawMessage) string {
		var c c07Case
		if err := json.Unmarshal(data, &c); err != nil {
			return "bad replay: " + err.Error()
		}
		return c07Evaluate(c)
	}
}

var allCodes = []string{"IMM01", "IMM02", "IMM03", "IMM04", "CTOR01", "CTOR02", "CTOR03", "TONL01", "TONL02", "TONL03", "PKGO01", "PKGO02", "PKGO03", "IMPL01", "IMPL02", "IMPL03"}

func mixCase(rt *rapid.T, s string) string {
	b := []byte(strings.ToLower(s))
	for i := range b {
		if rapid.Bool().Draw(rt, "upper") {
			b[i] = strings.ToUpper(string(b[i]))[0]
		}
	}
	return string(b)
}

// c07CodeList draws the comment's argument relative to a target code.
func c07CodeList(rt *rapid.T, target string) (text string, tokens []string, class string) {
	cat := refCategoryOf(target)
	others := []string{}
	for _, c := range allCodes {
		if c != target {
			others = append(others, c)
		}
	}
	switch rapid.IntRange(0, 11).Draw(rt, "codeClass") {
	case 0, 1:
		return target, []string{target}, "exact"
	case 2:
		o := others[rapid.IntRange(0, len(others)-1).Draw(rt, "other")]
		sep := rapid.SampledFrom([]string{", ", ",", " , ", ",\t"}).Draw(rt, "sep")
		if rapid.Bool().Draw(rt, "order") {
			return target + sep + o, []string{target, o}, "several"
		}
		return o + sep + target, []string{o, target}, "several"
	case 3:
		return cat, []string{cat}, "category"
	case 4:
		return "ALL", []string{"ALL"}, "ALL"
	case 5:
		return "ZZZ9", []string{"ZZZ9"}, "unknown"
	case 6:
		oc := refCategories[rapid.IntRange(0, len(refCategories)-1).Draw(rt, "ocat")]
		if oc == cat {
			return "ZZZ9", []string{"ZZZ9"}, "unknown"
		}
		return oc, []string{oc}, "other-category"
	case 7:
		var same []string
		for _, c := range refCodes[cat] {
			if c != target {
				same = append(same, c)
			}
		}
		o := same[rapid.IntRange(0, len(same)-1).Draw(rt, "sib")]
		return o, []string{o}, "sibling-code"
	case 8:
		m := mixCase(rt, target)
		return m, []string{target}, "mixed-case"
	case 9:
		return target + " because the legacy importer needs it, IMM, ALL", []string{target}, "trailing-text"
	case 10:
		return target + ",", []string{target}, "trailing-comma"
	default:
		return strings.ToLower(cat), []string{cat}, "lower-case-category"
	}
}

func TestC07(t *testing.T) {
	const id = "C07"
	checkWitnesses(t, id)
	checkRegressions(t, id)
	ev.Rule(id, "rapid-generated programs with diagnostics of every enforcement code (anchored at statement start and mid-statement: x := T{}, var x T = f(), tuple assignments, elided literals, calls in expressions) plus ONE inserted @ignore comment: placement in {before package clause, alone before a top-level declaration, alone before a statement in a body (simple or compound, any nesting), trailing the first line of a statement/declaration, trailing the last line of a compound statement/declaration}, positioned on a node that contains a chosen diagnostic, on a sibling / unrelated node, or anywhere; code list in {exact, several, category, ALL, unknown, other category, sibling code, mixed case, trailing text, trailing comma, lower-case category}. oracle = metamorphic: D' = D minus {d in model-computed scope and matched under ALL>category>code}, everything else unchanged; for TONL01/PKGO01 the report re-appears at the next unsuppressed use (model knows every use in order). non-trivial = the comment's scope contains >=1 diagnostic and >=1 diagnostic with a matching code lies outside it; distinct by hash")
	cfg := engine.DefaultConfig()
	rapid.Check(t, func(rt *rapid.T) {
		p := proggen.Gen(rt, proggen.GenOpts{Focus: "all", MinPkgs: 1, MaxPkgs: 3, TestFiles: false, Aliases: true, Rich: true})
		// generated code: a //line directive in front of a declaration renames and
		// renumbers the rest of the file (in the base and in the commented program
		// alike); scopes of @ignore comments follow the physical layout
		var dirNode *proggen.Node
		var dirFile *proggen.File
		if rapid.IntRange(0, 9).Draw(rt, "lineDirective") < 3 {
			var ds []proggen.NodeRef
			for _, n := range p.Nodes() {
				if n.Stmt == nil {
					ds = append(ds, n)
				}
			}
			if len(ds) > 0 {
				n := ds[rapid.IntRange(0, len(ds)-1).Draw(rt, "dirNode")]
				n.Node.Before = append(n.Node.Before, fmt.Sprintf("//line zz_%s:%d:1", n.File.Name, rapid.SampledFrom([]int{1, 1, 7, 100001}).Draw(rt, "dirLine")))
				dirNode, dirFile = n.Node, n.File
				p.Render()
			}
		}
		base := loadOrBug(rt, id, p, cfg)
		srcA := p.Sources()
		base.Diags = unshiftDiags(srcA, base.Diags)
		baseKeys := siteKeys(srcA, base.Diags, 0, nil, true)
		// choose a target diagnostic (if any)
		var tagged []string
		for k := range baseKeys {
			if strings.HasPrefix(k, "s") {
				tagged = append(tagged, k)
			}
		}
		sort.Strings(tagged)
		targetSite, targetCode := 0, allCodes[rapid.IntRange(0, len(allCodes)-1).Draw(rt, "anyCode")]
		if dirNode != nil {
			// prefer a diagnostic below the directive
			tl := p.TagLines()
			var below []string
			for _, k := range tagged {
				var site int
				fmt.Sscanf(k, "s%d", &site)
				if w := tl[site]; w.File == dirFile.Pkg.Dir+"/"+dirFile.Name && w.Line > dirNode.Start {
					below = append(below, k)
				}
			}
			if len(below) > 0 && rapid.IntRange(0, 9).Draw(rt, "belowDirective") < 7 {
				tagged = below
			}
		}
		if len(tagged) > 0 {
			k := tagged[rapid.IntRange(0, len(tagged)-1).Draw(rt, "targetDiag")]
			fmt.Sscanf(k, "s%d %s", &targetSite, &targetCode)
		}
		nodes := p.Nodes()
		if len(nodes) == 0 {
			return
		}
		contains := func(n proggen.NodeRef, site int) bool {
			for _, s := range n.Sites {
				if s == site {
					return true
				}
			}
			return false
		}
		var holding, sameFile []proggen.NodeRef
		var tfile *proggen.File
		for _, n := range nodes {
			if targetSite != 0 && contains(n, targetSite) {
				holding = append(holding, n)
				tfile = n.File
			}
		}
		for _, n := range nodes {
			if tfile != nil && n.File == tfile && !contains(n, targetSite) {
				sameFile = append(sameFile, n)
			}
		}
		type ins struct {
			N                 proggen.NodeRef
			place, rel, class string
			comment           string
			tokens            []string
		}
		var inserted []ins
		used := map[*proggen.Node]bool{}
		if dirNode != nil {
			used[dirNode] = true
			ev.Class(id, "file with a //line directive")
		}
		ncomments := 1
		if rapid.IntRange(0, 9).Draw(rt, "moreComments") < 3 {
			ncomments = rapid.IntRange(2, 3).Draw(rt, "ncomments")
		}
		for ci := 0; ci < ncomments; ci++ {
			var N proggen.NodeRef
			rel := "any"
			switch r := rapid.IntRange(0, 99).Draw(rt, "relation"); {
			case r < 60 && len(holding) > 0:
				N = holding[rapid.IntRange(0, len(holding)-1).Draw(rt, "holdingIdx")]
				rel = "node-contains-target"
			case r < 85 && len(sameFile) > 0:
				N = sameFile[rapid.IntRange(0, len(sameFile)-1).Draw(rt, "siblingIdx")]
				rel = "same-file-not-containing"
			default:
				N = nodes[rapid.IntRange(0, len(nodes)-1).Draw(rt, "anyIdx")]
			}
			text, tokens, class := c07CodeList(rt, targetCode)
			prefix := rapid.SampledFrom([]string{"// @ignore ", "//@ignore ", "//  @ignore\t", "// @ignore  "}).Draw(rt, "prefix")
			comment := prefix + text
			place := rapid.SampledFrom([]string{"before", "before", "before", "trailing", "trailing", "trailing-last", "file-head"}).Draw(rt, "placement")
			if place == "trailing-last" && N.Node.End <= N.Node.Start {
				place = "trailing"
			}
			if place != "file-head" && used[N.Node] {
				continue
			}
			switch place {
			case "before":
				N.Node.Before = append(N.Node.Before, comment)
			case "trailing":
				N.Node.Trailing = comment
			case "trailing-last":
				N.Node.TrailingLast = comment
			case "file-head":
				if len(N.File.Head) > 0 {
					continue
				}
				// attached to the package clause, detached by a blank line, or
				// around a build constraint
				switch rapid.IntRange(0, 3).Draw(rt, "headShape") {
				case 0:
					N.File.Head = []string{comment}
				case 1:
					N.File.Head = []string{comment, ""}
				case 2:
					N.File.Head = []string{comment, "", "//go:build !vfnevertag", ""}
				case 3:
					N.File.Head = []string{"//go:build !vfnevertag", "", comment}
				}
			}
			used[N.Node] = true
			inserted = append(inserted, ins{N: N, place: place, rel: rel, class: class, comment: comment, tokens: tokens})
		}
		if len(inserted) == 0 {
			return
		}
		p.Render()
		srcB := p.Sources()
		var scopes []c07Comment
		for i := range inserted {
			in := &inserted[i]
			N := in.N
			lo, hi := 0, 0
			switch in.place {
			case "before":
				lo, hi = N.Node.Start, N.Node.End
				if N.Node.GroupEnd > hi {
					hi = N.Node.GroupEnd // the comment sits before "type (": the whole group
				}
				if N.Stmt == nil {
					in.place = "before-declaration"
				} else {
					in.place = "before-statement"
				}
			case "trailing":
				lo, hi = N.Node.Start, N.Node.Start
			case "trailing-last":
				lo, hi = N.Node.End, N.Node.End
			case "file-head":
				lo, hi = 1, len(N.File.Lines)
			}
			scopes = append(scopes, c07Comment{File: N.File.Pkg.Dir + "/" + N.File.Name, Lo: lo, Hi: hi, Tokens: in.tokens, Comment: in.comment, Place: in.place})
		}
		fileKey, lo, hi, tokens, comment, place := scopes[0].File, scopes[0].Lo, scopes[0].Hi, scopes[0].Tokens, scopes[0].Comment, scopes[0].Place
		rel, class := inserted[0].rel, inserted[0].class
		// successors for once-per-file codes
		succ := map[string][]c07Succ{}
		succMore := map[string][][]c07Succ{}
		for k := range baseKeys {
			var site int
			var code string
			if _, err := fmt.Sscanf(k, "s%d %s", &site, &code); err != nil || (code != "TONL01" && code != "PKGO01") {
				continue
			}
			lists := c07Successors(p, site, code, base.Diags, srcA)
			if len(lists) > 0 {
				succ[k] = lists[0]
			}
			if len(lists) > 1 {
				succMore[k] = lists[1:]
			}
		}
		c := c07Case{Pkgs: pkgDirs(p), Base: srcA, With: srcB, File: fileKey, Lo: lo, Hi: hi, Tokens: tokens, Comment: comment, Place: place, Successors: succ, MoreSuccessors: succMore, More: scopes[1:]}
		after := loadOrBug(rt, id, p, cfg)
		_ = after
		ev.Eval(id)
		if why := c07Evaluate(c); why != "" {
			violation(rt, id, "c07", "c07", p.Size(), c, "@ignore %q (%s, %s, codes=%s): %s", comment, place, rel, class, why)
		}
		// non-trivial: in-scope diagnostic exists and a matching one outside
		tl := p.TagLines()
		in, out := 0, 0
		for k := range baseKeys {
			var site int
			var code string
			if _, err := fmt.Sscanf(k, "s%d %s", &site, &code); err != nil {
				continue
			}
			w := tl[site]
			scoped := w.File == fileKey && w.Line >= lo && w.Line <= hi
			if scoped {
				in++
			} else if c07Matches(tokens, code) {
				out++
			}
		}
		if in > 0 && out > 0 {
			ev.NonTrivial(id, ev.Hash(fmt.Sprint(srcB)))
		}
		ev.Class(id, fmt.Sprintf("comments inserted: %d", len(scopes)))
		if len(scopes) > 1 {
			// nested: one scope inside another with a shared matching token
			for i := range scopes {
				for j := range scopes {
					if i != j && scopes[i].File == scopes[j].File && scopes[i].Lo <= scopes[j].Lo && scopes[j].Hi <= scopes[i].Hi {
						ev.Class(id, "nested scopes")
					}
				}
			}
		}
		ev.Class(id, "placement "+place)
		ev.Class(id, "codes "+class)
		ev.Class(id, "relation "+rel)
		if in > 0 {
			ev.Class(id, "scope contains diagnostics: "+place)
			if c07Matches(tokens, targetCode) {
				ev.Class(id, "suppressing: "+place+" / "+targetCode)
			}
		}
		if ev.SampleCount(id) < 3 && in > 0 && out > 0 && p.Size() < 150 {
			ev.Sample(id, map[string]interface{}{"comment": comment, "placement": place, "scope": fmt.Sprintf("%s:%d-%d", fileKey, lo, hi), "with_comment": srcB, "base_verdicts": sortedKeys(baseKeys)})
		}
	})
}

// c07Successors lists the later mentions (in source order) of the type whose
// once-per-file diagnostic sits at site, for the re-reporting rule.
func c07Successors(p *proggen.Prog, site int, code string, diags []engine.Diag, src map[string]string) [][]c07Succ {
	// type names from the messages of the diagnostics at that site
	var names []string
	nreported := 0
	for _, d := range diags {
		if d.Code != code {
			continue
		}
		lines := strings.Split(src[d.File], "\n")
		if d.Line >= 1 && d.Line <= len(lines) && proggen.TagAtCol(lines, d.Line, d.Col) == site {
			nreported++
			n := ""
			if mm := tonl01Re.FindStringSubmatch(d.Message); mm != nil {
				n = mm[1]
			} else if mm := pkgo01Re.FindStringSubmatch(d.Message); mm != nil {
				n = mm[1]
			}
			dup := false
			for _, o := range names {
				dup = dup || o == n
			}
			if !dup {
				names = append(names, n)
			}
		}
	}
	// the annotated types mentioned at the site under one of those names (two
	// types of different packages can share a name)
	var targets []*proggen.TypeDecl
	p.Walk(func(si proggen.SiteInfo) {
		if si.Site.ID != site {
			return
		}
		for _, evn := range si.Site.Events() {
			if evn.Cat != "MENTION" {
				continue
			}
			named := false
			for _, n := range names {
				named = named || n == evn.Type.Name
			}
			if !named || (code == "TONL01" && !evn.Type.TestOnly) || (code == "PKGO01" && evn.Type.PackageOnly == nil) {
				continue
			}
			if code == "PKGO01" {
				// the declaring package and the allowed packages are never reported
				up, un := si.Ctx.File.SrcPkgPath(), si.Ctx.File.PkgName()
				if evn.Type.Pkg.Path() == up || proggen.Allowed(evn.Type.PackageOnly, up, un) {
					continue
				}
			}
			dup := false
			for _, o := range targets {
				dup = dup || o == evn.Type
			}
			if !dup {
				targets = append(targets, evn.Type)
			}
		}
	})
	var out [][]c07Succ
	for _, tg := range targets {
		l := c07SuccessorsOf(p, site, code, tg)
		if len(targets) > nreported {
			// same-named types on one line, not all of them reported: which one was is not observable
			for i := range l {
				l[i].Judged = false
			}
		}
		out = append(out, l)
	}
	return out
}

func c07SuccessorsOf(p *proggen.Prog, site int, code string, target *proggen.TypeDecl) []c07Succ {
	var tfile *proggen.File
	p.Walk(func(si proggen.SiteInfo) {
		if si.Site.ID == site {
			tfile = si.Ctx.File
		}
	})
	var out []c07Succ
	passed := false
	p.Walk(func(si proggen.SiteInfo) {
		if si.Ctx.File != tfile {
			return
		}
		if si.Site.ID == site {
			passed = true
			return
		}
		if !passed {
			return
		}
		if code == "TONL01" && si.Ctx.Func != nil && si.Ctx.Func.TestOnly {
			return
		}
		for _, evn := range si.Site.Events() {
			if evn.Cat != "MENTION" || evn.Type != target {
				continue
			}
			judged := true
			if code == "TONL01" {
				switch evn.Mention {
				case "other":
					return // never reported by the listed shapes; not a use in the statement's sense
				case "recv":
					judged = false
				}
			}
			if evn.Elided && code == "PKGO01" {
				judged = false // the type is not written there: open
			}
			out = append(out, c07Succ{Site: si.Site.ID, Judged: judged})
			return
		}
	})
	return out
}
