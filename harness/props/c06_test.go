package props

import (
	"bytes"
	"encoding/gob"
	"encoding/json"
	"fmt"
	"reflect"
	"sort"
	"strings"
	"testing"

	"pgregory.net/rapid"

	"github.com/a14e/gogreement/src/annotations"

	"verif/harness/engine"
	"verif/harness/ev"
	"verif/harness/proggen"
)

// c06Case: a program whose diagnostics must agree across drivers / root sets.
type c06Case struct {
	Pkgs    []string          `json:"pkgs"`
	Sources map[string]string `json:"sources"`
	Mode    string            `json:"mode"` // drivers | rootsets | locality
	// locality: a second version of the program differing only in the named package
	SourcesB  map[string]string `json:"sources_b,omitempty"`
	EditedPkg string            `json:"edited_pkg,omitempty"`
	Observed  []string          `json:"observed_pkgs,omitempty"` // package dirs whose diagnostics must not change
	ScanTests bool              `json:"scan_tests,omitempty"`    // drivers: run everything with scan-tests on
	Exclude   []string          `json:"exclude,omitempty"`       // drivers: exclude-paths entries (directories of the program)
}

func diagLine(d engine.Diag) string {
	return fmt.Sprintf("%s:%d:%d %s %s", d.File, d.Line, d.Col, d.Analyzer, firstLine(d.Message))
}

func diagSet(ds []engine.Diag) map[string]bool {
	m := map[string]bool{}
	for _, d := range ds {
		m[diagLine(d)] = true
	}
	return m
}

func diagSetFull(ds []engine.Diag) map[string]bool {
	m := map[string]bool{}
	for _, d := range ds {
		m[fmt.Sprintf("%s:%d:%d %s %s", d.File, d.Line, d.Col, d.Analyzer, d.Message)] = true
	}
	return m
}

func dirOfFile(f string) string {
	if i := strings.LastIndex(f, "/"); i >= 0 {
		return f[:i]
	}
	return "."
}

func c06Drivers(c c06Case) string {
	prog := enginePkgs(c.Pkgs, c.Sources)
	cfg := engine.DefaultConfig()
	var flags []string
	if c.ScanTests {
		// test files are analysed too: their annotations become facts of the test variants
		cfg.ScanTests = true
		flags = []string{"--config.scan-tests"}
	}
	if len(c.Exclude) > 0 {
		// an excluded dependency exports no facts, whichever driver runs
		cfg.ExcludePaths = c.Exclude
		flags = append(flags, "--config.exclude-paths="+strings.Join(c.Exclude, ","))
	}
	ld, err := engine.Load(prog, engine.VirtualRoot, "go1.23")
	if err != nil {
		return "load: " + err.Error()
	}
	a := engine.Analyze(ld, cfg, engine.Options{Sequential: true})
	b := engine.Analyze(ld, cfg, engine.Options{Sequential: false, SanityCheck: true})
	if len(a.Panics)+len(b.Panics) > 0 {
		return fmt.Sprintf("panic: %v %v", a.Panics, b.Panics)
	}
	if len(b.Errors) > 0 {
		return "fact sanity check / action error: " + b.Errors[0]
	}
	if d := diffSets(diagSet(a.Diags), diagSet(b.Diags), "in-process", "in-process+SanityCheck+parallel"); d != "" {
		return d
	}
	if engine.BinPath() == "" {
		return ""
	}
	dir, err := engine.Scratch()
	if err != nil {
		return ""
	}
	defer engine.RmScratch(dir)
	if err := engine.WriteToDisk(prog, dir); err != nil {
		return ""
	}
	bin := engine.RunBinary(dir, flags, nil, "./...")
	if len(bin.Panics) > 0 || len(bin.Errors) > 0 || bin.Exit != 0 {
		return fmt.Sprintf("binary failed: exit %d %v %v %s", bin.Exit, bin.Panics, bin.Errors, firstLine(bin.Stderr))
	}
	if d := diffSets(diagSet(a.Diags), diagSet(bin.Diags), "in-process", "standalone binary"); d != "" {
		return d
	}
	vet := engine.RunVet(dir, flags, nil, "./...")
	if len(vet.Panics) > 0 || len(vet.Errors) > 0 {
		return fmt.Sprintf("go vet -vettool failed: exit %d %v %v", vet.Exit, vet.Panics, vet.Errors)
	}
	if d := diffSets(diagSetFull(bin.Diags), diagSetFull(vet.Diags), "standalone binary", "go vet -vettool (facts on disk)"); d != "" {
		return d
	}
	return ""
}

func c06RootSets(c c06Case) string {
	prog := enginePkgs(c.Pkgs, c.Sources)
	cfg := engine.DefaultConfig()
	ld, err := engine.Load(prog, engine.VirtualRoot, "go1.23")
	if err != nil {
		return "load: " + err.Error()
	}
	all := engine.Analyze(ld, cfg, engine.Options{Sequential: true})
	if len(all.Panics) > 0 {
		return "panic: " + all.Panics[0]
	}
	byPkg := map[string]map[string]bool{}
	for _, d := range all.Diags {
		if byPkg[d.Pkg] == nil {
			byPkg[d.Pkg] = map[string]bool{}
		}
		byPkg[d.Pkg][diagLine(d)] = true
	}
	for _, pp := range ld.All {
		// this package alone (its dependencies only as unnamed dependencies)
		one := engine.Analyze(ld, cfg, engine.Options{Sequential: true, Roots: []string{pp.ID}})
		if len(one.Panics) > 0 {
			return "panic: " + one.Panics[0]
		}
		got := map[string]bool{}
		for _, d := range one.Diags {
			if d.Pkg == pp.ID {
				got[diagLine(d)] = true
			}
		}
		want := byPkg[pp.ID]
		if want == nil {
			want = map[string]bool{}
		}
		if d := diffSets(want, got, "analysed with all packages", "analysed alone ("+pp.ID+")"); d != "" {
			return d
		}
	}
	return ""
}

func c06Locality(c c06Case) string {
	cfg := engine.DefaultConfig()
	ra, _, err := engine.RunInproc(enginePkgs(c.Pkgs, c.Sources), cfg, engine.Options{Sequential: true})
	if err != nil {
		return "load A: " + err.Error()
	}
	rb, _, err := engine.RunInproc(enginePkgs(c.Pkgs, c.SourcesB), cfg, engine.Options{Sequential: true})
	if err != nil {
		return "load B: " + err.Error()
	}
	obs := map[string]bool{}
	for _, o := range c.Observed {
		obs[o] = true
	}
	sel := func(ds []engine.Diag) map[string]bool {
		m := map[string]bool{}
		for _, d := range ds {
			if obs[dirOfFile(d.File)] {
				m[fmt.Sprintf("%s:%s %s", d.File, tagOfLine(c.Sources, c.SourcesB, d), d.Code)] = true
			}
		}
		return m
	}
	return diffSets(sel(ra.Diags), sel(rb.Diags), "before editing "+c.EditedPkg, "after editing annotations of "+c.EditedPkg)
}

// tagOfLine identifies the line by its tag (the observed packages' sources are identical in A and B).
func tagOfLine(a, b map[string]string, d engine.Diag) string {
	for _, src := range []map[string]string{a, b} {
		ls := strings.Split(src[d.File], "\n")
		if id := proggen.TagAtCol(ls, d.Line, d.Col); id != 0 {
			return fmt.Sprintf("s%d", id)
		}
	}
	return fmt.Sprintf("line%d", d.Line)
}

func init() {
	replayers["c06"] = func(data json.RawMessage) string {
		var c c06Case
		if err := json.Unmarshal(data, &c); err != nil {
			return "bad replay: " + err.Error()
		}
		switch c.Mode {
		case "drivers":
			return c06Drivers(c)
		case "rootsets":
			return c06RootSets(c)
		case "locality":
			return c06Locality(c)
		}
		return "unknown mode"
	}
}

// fatten gives some annotations long / unusual values (they must survive the
// fact encoding of every driver).
func fatten(rt *rapid.T, p *proggen.Prog) int {
	n := 0
	for _, td := range p.AllTypes() {
		if td.HasCtor() && rapid.IntRange(0, 3).Draw(rt, "fatCtor") == 0 {
			k := rapid.IntRange(5, 40).Draw(rt, "nCtorNames")
			for i := 0; i < k; i++ {
				td.Constructors = append(td.Constructors, fmt.Sprintf("Missing%s_%d", td.Name, i))
			}
			td.CtorSpelling = ""
			n++
		}
		if td.PackageOnly != nil && rapid.IntRange(0, 3).Draw(rt, "fatPO") == 0 {
			k := rapid.IntRange(5, 30).Draw(rt, "nPOEntries")
			var line []string
			for i := 0; i < k; i++ {
				line = append(line, rapid.SampledFrom([]string{"github.com/some-org/some.repo/v2/pkg", "a.b-c/d_e", "x", "vf.test/m/zz", "gopkg.in/yaml.v3", "a", "a"}).Draw(rt, "poEntry"))
			}
			td.PackageOnly = append(td.PackageOnly, line, []string{})
			n++
		}
	}
	return n
}

func importsOf(p *proggen.Prog, pkg *proggen.Pkg) map[*proggen.Pkg]bool {
	m := map[*proggen.Pkg]bool{}
	for _, f := range pkg.Files {
		for _, ip := range f.Imports {
			m[ip] = true
		}
	}
	return m
}

func TestC06(t *testing.T) {
	const id = "C06"
	checkWitnesses(t, id)
	checkRegressions(t, id)
	ev.Rule(id, "rapid-generated multi-package programs (import DAGs up to depth 3, every annotation kind used across package edges, some annotations with 5-40 constructor names / 5-30 allow-list entries with dots, dashes, slashes, duplicates, empty lines). relations: (i) driver differential - in-process sequential = in-process parallel with fact SanityCheck = standalone binary ./... = go vet -vettool (facts serialised to disk), compared as (file,line,col,analyzer,message) sets; (ii) run-set independence - each package analysed alone (dependencies unnamed) gives the diagnostics it gets when everything is analysed; (iii) locality - editing the annotations of a package that p does not directly import leaves p's diagnostics unchanged; (v) gob round trip of rapid-generated PackageAnnotations through all six fact types (nil == empty). non-trivial = program in which >=1 diagnostic of an importing package is caused by an imported annotation; distinct by source hash (+ fact values by hash)")
	extBudget := scale(24, 3000)
	si, sn := shard()
	_ = si
	extBudget /= sn
	extN := 0
	cfg := engine.DefaultConfig()
	rapid.Check(t, func(rt *rapid.T) {
		p := proggen.Gen(rt, proggen.GenOpts{Focus: "all", MinPkgs: 2, MaxPkgs: 4, TestFiles: true, XTest: true, Aliases: true, Rich: true})
		fat := fatten(rt, p)
		p.Render()
		res := loadOrBug(rt, id, p, cfg)
		src := p.Sources()
		ev.Eval(id)
		// non-trivial: a diagnostic in a package about a type/func of another package
		cross := false
		bySite, _ := proggen.SiteDiags(p, res.Diags)
		p.Walk(func(si proggen.SiteInfo) {
			if len(bySite[si.Site.ID]) == 0 {
				return
			}
			for _, evn := range si.Site.Events() {
				if (evn.Type != nil && evn.Type.Pkg != si.Ctx.Pkg) || (evn.Fn != nil && evn.Fn.Pkg != si.Ctx.Pkg) {
					cross = true
				}
			}
		})
		if cross {
			ev.NonTrivial(id, ev.Hash(fmt.Sprint(src)))
		}
		// annotated items reached although their package is not imported (through a middle package's API)
		unimported := false
		p.Walk(func(si proggen.SiteInfo) {
			for _, evn := range si.Site.Events() {
				if evn.Type != nil && evn.Type.Immutable && evn.Cat == "IMM" && proggen.Visible(evn.Type.Pkg, si.Ctx) == "no" {
					unimported = true
				}
			}
		})
		if unimported {
			ev.Class(id, "mutation of an @immutable type whose package the user does not import (reached through a middle package)")
		}
		if fat > 0 {
			ev.Class(id, "program with long / unusual annotation values")
		}
		// (iv) annotations take effect in importers exactly as the model says
		// (same rule for the declaring package and for importers)
		for _, cat := range []struct {
			prefix string
			expect func(*proggen.Prog, engine.Config) *proggen.Expect
		}{{"IMM", proggen.ExpectIMM}, {"CTOR", proggen.ExpectCTOR}, {"TONL", proggen.ExpectTONL}, {"PKGO", proggen.ExpectPKGO}} {
			e := cat.expect(p, cfg)
			if mm := proggen.Compare(p, res.Diags, e, cat.prefix); len(mm) > 0 {
				var ss []string
				for _, m := range mm {
					ss = append(ss, m.String())
				}
				must, may, oneOf := expectKeys(p, e)
				pc := progCase{Pkgs: pkgDirs(p), Sources: src, Config: cfg, Prefixes: []string{cat.prefix}, Must: must, May: may, OneOf: oneOf}
				violation(rt, id, "prog", "c06-exact", p.Size(), pc, "annotations do not take effect across the package boundary as in the declaring package: %s", strings.Join(ss, "; "))
			}
		}
		ev.Class(id, "relation exactness across package edges")
		// (ii) root sets
		c := c06Case{Pkgs: pkgDirs(p), Sources: src, Mode: "rootsets"}
		if why := c06RootSets(c); why != "" {
			violation(rt, id, "c06", "rootsets", p.Size(), c, "run-set dependence: %s", why)
		}
		ev.Class(id, "relation rootsets")
		// (iii) locality: edit annotations of one package; observe packages not importing it
		edit := p.Pkgs[rapid.IntRange(0, len(p.Pkgs)-1).Draw(rt, "editPkg")]
		var observed []string
		for _, q := range p.Pkgs {
			if q != edit && !importsOf(p, q)[edit] {
				observed = append(observed, q.Dir)
			}
		}
		if len(observed) > 0 {
			for _, f := range edit.Files {
				for _, d := range f.Decls {
					switch d := d.(type) {
					case *proggen.TypeDecl:
						d.Immutable = !d.Immutable
						d.TestOnly = !d.TestOnly
						if d.Constructors == nil {
							d.Constructors = []string{"Nothing"}
						} else {
							d.Constructors, d.CtorSpelling = nil, ""
						}
						if d.PackageOnly == nil {
							d.PackageOnly = [][]string{{}}
						} else {
							d.PackageOnly = nil
						}
					case *proggen.FuncDecl:
						d.TestOnly = !d.TestOnly
						if d.PackageOnly == nil {
							d.PackageOnly = [][]string{{}}
						} else {
							d.PackageOnly = nil
						}
					}
				}
			}
			p.Render()
			srcB := p.Sources()
			lc := c06Case{Pkgs: pkgDirs(p), Sources: src, SourcesB: srcB, Mode: "locality", EditedPkg: edit.Dir, Observed: observed}
			if why := c06Locality(lc); why != "" {
				violation(rt, id, "c06", "locality", p.Size(), lc, "annotations of %s (not directly imported) influence %v: %s", edit.Dir, observed, why)
			}
			ev.Class(id, "relation locality")
		}
		// (i) drivers (external processes: budgeted)
		dc := c06Case{Pkgs: pkgDirs(p), Sources: src, Mode: "drivers"}
		if extN < extBudget {
			extN++
			if rapid.IntRange(0, 9).Draw(rt, "twinPackages") < 4 {
				// two packages with byte-identical sources (annotations of every kind at the same
				// offsets) and a user of both: under go vet each package has positions of its own
				dc.Pkgs = append(append([]string{}, dc.Pkgs...), "twa/m", "twb/m", "twuse")
				dc.Sources = map[string]string{}
				for k, v := range src {
					dc.Sources[k] = v
				}
				dc.Sources["twa/m/m.go"], dc.Sources["twb/m/m.go"], dc.Sources["twuse/u.go"] = c06TwinSrc, c06TwinSrc, c06TwinUse
				ev.Class(id, "relation drivers with two byte-identical annotated packages")
			}
			if dc.ScanTests = rapid.IntRange(0, 9).Draw(rt, "driversScanTests") < 3; dc.ScanTests {
				ev.Class(id, "relation drivers with scan-tests on")
			}
			if rapid.IntRange(0, 9).Draw(rt, "driversExclude") < 3 {
				dirs := pkgDirs(p)
				dc.Exclude = []string{"/" + dirs[rapid.IntRange(0, len(dirs)-1).Draw(rt, "excludedDir")] + "/"}
				ev.Class(id, "relation drivers with a package directory excluded")
			}
			if why := c06Drivers(dc); why != "" {
				violation(rt, id, "c06", "drivers", p.Size(), dc, "drivers disagree: %s", why)
			}
			ev.Class(id, "relation drivers (in-process x2, binary, go vet)")
		}
		if cross {
			ev.SampleFallback(id, map[string]interface{}{"packages": pkgDirs(p), "diagnostics": len(res.Diags), "one_file": firstFile(src)})
		}
		if ev.SampleCount(id) < 2 && cross && p.Size() < 130 {
			ev.Sample(id, map[string]interface{}{"sources": src, "diagnostics": sortedKeys(diagSet(res.Diags))})
		}
	})
}

// ---- (v) fact round trip -------------------------------------------------------

// genAnnotations fills a PackageAnnotations value through reflection: every
// exported field of every annotation struct - also those promoted through an
// embedded struct - gets a generated value, whatever the layout of the structs
// is (a refactoring of the fact types must not need a change here: it must
// survive the round trip).
func genAnnotations(rt *rapid.T) annotations.PackageAnnotations {
	var pa annotations.PackageAnnotations
	fillRandom(rt, reflect.ValueOf(&pa).Elem(), "PackageAnnotations", 0)
	return pa
}

func fillRandom(rt *rapid.T, v reflect.Value, name string, depth int) {
	ident := rapid.StringMatching(`[A-Za-z_][A-Za-z0-9_]{0,12}`)
	pathGen := rapid.SampledFrom([]string{"", "a", "github.com/some-org/some.repo/v2/pkg", "gopkg.in/yaml.v3", "a.b-c/d_e", "vf.test/m/n/sub"})
	switch v.Kind() {
	case reflect.Struct:
		for i := 0; i < v.NumField(); i++ {
			f := v.Type().Field(i)
			if f.PkgPath != "" && !f.Anonymous {
				continue // unexported, not embedded: never part of a fact
			}
			fillRandom(rt, v.Field(i), f.Name, depth+1)
		}
	case reflect.Slice:
		if !v.CanSet() {
			return
		}
		max := 4
		if v.Type().Elem().Kind() == reflect.String {
			max = 40
		}
		n := rapid.IntRange(0, max).Draw(rt, "n"+name)
		sl := reflect.MakeSlice(v.Type(), n, n)
		for i := 0; i < n; i++ {
			fillRandom(rt, sl.Index(i), name, depth+1)
		}
		if n > 0 || rapid.Bool().Draw(rt, "emptyNotNil") {
			v.Set(sl)
		}
	case reflect.String:
		if !v.CanSet() {
			return
		}
		if strings.Contains(name, "Package") || strings.Contains(name, "Path") {
			v.SetString(pathGen.Draw(rt, "path"))
		} else {
			v.SetString(ident.Draw(rt, "ident"))
		}
	case reflect.Bool:
		if v.CanSet() {
			v.SetBool(rapid.Bool().Draw(rt, "bool"))
		}
	case reflect.Int, reflect.Int8, reflect.Int16, reflect.Int32, reflect.Int64:
		if !v.CanSet() {
			return
		}
		if strings.Contains(v.Type().Name(), "Kind") {
			v.SetInt(int64(rapid.IntRange(0, 2).Draw(rt, "kind")))
		} else {
			v.SetInt(int64(rapid.IntRange(0, 1<<30).Draw(rt, "pos")))
		}
	case reflect.Uint, reflect.Uint8, reflect.Uint16, reflect.Uint32, reflect.Uint64:
		if v.CanSet() {
			v.SetUint(uint64(rapid.IntRange(0, 1<<20).Draw(rt, "u")))
		}
	}
}

// countElems counts the annotation entries of a PackageAnnotations value.
func countElems(pa annotations.PackageAnnotations) int {
	v := reflect.ValueOf(pa)
	n := 0
	for i := 0; i < v.NumField(); i++ {
		if v.Field(i).Kind() == reflect.Slice {
			n += v.Field(i).Len()
		}
	}
	return n
}

// normEmpty maps nil slices to empty ones, recursively (gob does not keep the distinction).
func normEmpty(v reflect.Value) {
	switch v.Kind() {
	case reflect.Slice:
		if v.IsNil() && v.CanSet() {
			v.Set(reflect.MakeSlice(v.Type(), 0, 0))
		}
		for i := 0; i < v.Len(); i++ {
			normEmpty(v.Index(i))
		}
	case reflect.Struct:
		for i := 0; i < v.NumField(); i++ {
			normEmpty(v.Field(i))
		}
	case reflect.Ptr:
		if !v.IsNil() {
			normEmpty(v.Elem())
		}
	}
}

type c06FactCase struct {
	Fact  string                         `json:"fact_type"`
	Value annotations.PackageAnnotations `json:"value"`
}

func c06FactRoundTrip(c c06FactCase) string {
	facts := map[string]func(annotations.PackageAnnotations) (interface{}, annotations.AnnotationWrapper){
		"AnnotationReaderFact": func(p annotations.PackageAnnotations) (interface{}, annotations.AnnotationWrapper) {
			f := annotations.AnnotationReaderFact(p)
			return &f, (&f).CreateEmpty()
		},
		"ImplementsCheckerFact": func(p annotations.PackageAnnotations) (interface{}, annotations.AnnotationWrapper) {
			f := annotations.ImplementsCheckerFact(p)
			return &f, (&f).CreateEmpty()
		},
		"ImmutableCheckerFact": func(p annotations.PackageAnnotations) (interface{}, annotations.AnnotationWrapper) {
			f := annotations.ImmutableCheckerFact(p)
			return &f, (&f).CreateEmpty()
		},
		"ConstructorCheckerFact": func(p annotations.PackageAnnotations) (interface{}, annotations.AnnotationWrapper) {
			f := annotations.ConstructorCheckerFact(p)
			return &f, (&f).CreateEmpty()
		},
		"TestOnlyCheckerFact": func(p annotations.PackageAnnotations) (interface{}, annotations.AnnotationWrapper) {
			f := annotations.TestOnlyCheckerFact(p)
			return &f, (&f).CreateEmpty()
		},
		"PackageOnlyCheckerFact": func(p annotations.PackageAnnotations) (interface{}, annotations.AnnotationWrapper) {
			f := annotations.PackageOnlyCheckerFact(p)
			return &f, (&f).CreateEmpty()
		},
	}
	mk := facts[c.Fact]
	if mk == nil {
		return "unknown fact type " + c.Fact
	}
	in, out := mk(c.Value)
	var buf bytes.Buffer
	if err := gob.NewEncoder(&buf).Encode(in); err != nil {
		return "gob encode: " + err.Error()
	}
	if err := gob.NewDecoder(&buf).Decode(out); err != nil {
		return "gob decode: " + err.Error()
	}
	want := c.Value
	got := *out.GetAnnotations()
	normEmpty(reflect.ValueOf(&want))
	normEmpty(reflect.ValueOf(&got))
	if !reflect.DeepEqual(want, got) {
		wj, _ := json.Marshal(want)
		gj, _ := json.Marshal(got)
		return fmt.Sprintf("fact %s does not survive gob: sent %s, received %s", c.Fact, wj, gj)
	}
	return ""
}

func init() {
	replayers["c06fact"] = func(data json.RawMessage) string {
		var c c06FactCase
		if err := json.Unmarshal(data, &c); err != nil {
			return "bad replay: " + err.Error()
		}
		return c06FactRoundTrip(c)
	}
}

func TestC06Facts(t *testing.T) {
	const id = "C06"
	names := []string{"AnnotationReaderFact", "ImplementsCheckerFact", "ImmutableCheckerFact", "ConstructorCheckerFact", "TestOnlyCheckerFact", "PackageOnlyCheckerFact"}
	sort.Strings(names)
	rapid.Check(t, func(rt *rapid.T) {
		v := genAnnotations(rt)
		for _, n := range names {
			c := c06FactCase{Fact: n, Value: v}
			ev.Eval(id)
			if why := c06FactRoundTrip(c); why != "" {
				b, _ := json.Marshal(v)
				violation(rt, id, "c06fact", "facts", len(b), c, "%s", why)
			}
		}
		b, _ := json.Marshal(v)
		if countElems(v) > 0 {
			ev.NonTrivial(id, ev.Hash("fact", string(b)))
		}
		ev.Class(id, "fact round trips (6 types each)")
	})
}

const c06TwinSrc = `package m

// @testonly
func Helper() int { return 1 }

// @testonly
type Mock struct{ N int }

// @immutable
// @constructor NewBox
type Box struct {
	A int
	// @mutable
	B int
}

func NewBox() *Box { return &Box{} }

// @packageonly m
func Inner() {}

// @testonly
func (b *Box) Reset() {}
`

const c06TwinUse = `package twuse

import (
	ma "vf.test/m/twa/m"
	mb "vf.test/m/twb/m"
)

func Use(x *ma.Box, y *mb.Box) {
	_ = ma.Helper()
	_ = mb.Helper()
	_ = ma.Mock{}
	_ = mb.Mock{}
	x.A = 1
	x.B = 2
	y.A = 3
	y.B = 4
	ma.Inner()
	mb.Inner()
	x.Reset()
	y.Reset()
	_ = ma.Box{}
	_ = new(mb.Box)
}
`
