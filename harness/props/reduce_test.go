package props

import (
	"encoding/json"
	"fmt"
	"os"
	"regexp"
	"sort"
	"strconv"
	"strings"
	"testing"

	"verif/harness/engine"
)

// Source-level delta debugging of a saved replay: after rapid's own shrinking
// the failing program often still carries packages, files and statements that
// have nothing to do with the failure. The reducer removes them greedily while
// (a) the program still type-checks and (b) the replayer still reports a
// failure of the same kind. It never touches the verdict logic: the reduced
// file is an ordinary replay file.

type reducible struct {
	get func(raw json.RawMessage) (pkgs []string, src map[string]string, err error)
	// put writes the reduced sources back; lineMap maps "file" -> old line -> new line (0 = removed)
	put func(raw json.RawMessage, pkgs []string, src map[string]string, lineMap map[string]map[int]int) (json.RawMessage, error)
}

var reducers = map[string]reducible{}

func sourcesReducer(pkgsKey, srcKey string, keyFields ...string) reducible {
	return reducible{
		get: func(raw json.RawMessage) ([]string, map[string]string, error) {
			var m map[string]json.RawMessage
			if err := json.Unmarshal(raw, &m); err != nil {
				return nil, nil, err
			}
			var pkgs []string
			var src map[string]string
			if err := json.Unmarshal(m[pkgsKey], &pkgs); err != nil {
				return nil, nil, err
			}
			if err := json.Unmarshal(m[srcKey], &src); err != nil {
				return nil, nil, err
			}
			return pkgs, src, nil
		},
		put: func(raw json.RawMessage, pkgs []string, src map[string]string, lineMap map[string]map[int]int) (json.RawMessage, error) {
			var m map[string]json.RawMessage
			if err := json.Unmarshal(raw, &m); err != nil {
				return nil, err
			}
			m[pkgsKey], _ = json.Marshal(pkgs)
			m[srcKey], _ = json.Marshal(src)
			// rewrite file:line:code keys
			for _, kf := range keyFields {
				if _, ok := m[kf]; !ok {
					continue
				}
				var flat []string
				var nested [][]string
				if json.Unmarshal(m[kf], &flat) == nil {
					m[kf], _ = json.Marshal(remapKeys(flat, src, lineMap))
				} else if json.Unmarshal(m[kf], &nested) == nil {
					var out [][]string
					for _, g := range nested {
						if r := remapKeys(g, src, lineMap); len(r) > 0 {
							out = append(out, r)
						}
					}
					m[kf], _ = json.Marshal(out)
				}
			}
			return json.Marshal(m)
		},
	}
}

var keyRe = regexp.MustCompile(`^(.*):(\d+):([A-Z]+\d+)$`)

func remapKeys(keys []string, src map[string]string, lineMap map[string]map[int]int) []string {
	out := []string{}
	for _, k := range keys {
		m := keyRe.FindStringSubmatch(k)
		if m == nil {
			out = append(out, k)
			continue
		}
		if _, ok := src[m[1]]; !ok {
			continue // file removed
		}
		ln, _ := strconv.Atoi(m[2])
		if lm, ok := lineMap[m[1]]; ok {
			nl, ok := lm[ln]
			if !ok || nl == 0 {
				continue
			}
			ln = nl
		}
		out = append(out, fmt.Sprintf("%s:%d:%s", m[1], ln, m[3]))
	}
	return out
}

func init() {
	reducers["prog"] = sourcesReducer("pkgs", "sources", "must", "may", "one_of")
	reducers["c09"] = sourcesReducer("pkgs", "sources")
	reducers["c10"] = sourcesReducer("pkgs", "sources")
	reducers["c14"] = sourcesReducer("pkgs", "sources")
	reducers["c05"] = sourcesReducer("pkgs", "sources")
}

func typeChecks(pkgs []string, src map[string]string) bool {
	ld, err := engine.Load(enginePkgs(pkgs, src), engine.VirtualRoot, "go1.23")
	return err == nil && len(ld.TypeErrs) == 0
}

// failureClass reduces a replayer message to its kind (so that the reducer
// keeps the same failure, not any failure).
var classRe = regexp.MustCompile(`(missing|unexpected|reported \d+ times|panic|diagnostics on|located in excluded|influence|expected IMPL0\d|Go accepts it|tool is silent|tool lists|no annotation of the type explains|crashed|analysis error)[^;]*?([A-Z]{3,4}\d\d)?`)

func failureClass(msg string) string {
	m := classRe.FindStringSubmatch(msg)
	if m == nil {
		return firstLine(msg)
	}
	return m[1] + " " + m[2]
}

// reduceEnvelope returns a reduced copy of e (or e itself if nothing could be removed).
func reduceEnvelope(e Envelope) (Envelope, int, int) {
	rd, ok := reducers[e.Kind]
	replay := replayers[e.Kind]
	if !ok || replay == nil {
		return e, 0, 0
	}
	orig := replay(e.Data)
	if orig == "" || strings.HasPrefix(orig, "load error") || strings.HasPrefix(orig, "GENERATOR-BUG") {
		return e, 0, 0
	}
	class := failureClass(orig)
	pkgs, src, err := rd.get(e.Data)
	if err != nil {
		return e, 0, 0
	}
	before := 0
	for _, s := range src {
		before += len(strings.Split(s, "\n"))
	}
	// removed lines per file are tracked as blanked lines first (numbering kept)
	stillFails := func(p []string, s map[string]string) bool {
		if !typeChecks(p, s) {
			return false
		}
		// expectations attached to blanked lines disappear with them
		lm := map[string]map[int]int{}
		for f, txt := range s {
			m := map[int]int{}
			for i, l := range strings.Split(txt, "\n") {
				if strings.TrimSpace(l) != "" {
					m[i+1] = i + 1
				}
			}
			lm[f] = m
		}
		raw, err := rd.put(e.Data, p, s, lm)
		if err != nil {
			return false
		}
		r := replay(raw)
		return r != "" && failureClass(r) == class
	}
	copyMap := func(m map[string]string) map[string]string {
		o := map[string]string{}
		for k, v := range m {
			o[k] = v
		}
		return o
	}
	filesOf := func(s map[string]string, dir string) []string {
		var fs []string
		for k := range s {
			if k[:strings.LastIndex(k, "/")] == dir {
				fs = append(fs, k)
			}
		}
		sort.Strings(fs)
		return fs
	}
	changed := true
	for round := 0; changed && round < 6; round++ {
		changed = false
		// 1. whole packages, last first
		for i := len(pkgs) - 1; i >= 0 && len(pkgs) > 1; i-- {
			np := append(append([]string{}, pkgs[:i]...), pkgs[i+1:]...)
			ns := copyMap(src)
			for _, f := range filesOf(src, pkgs[i]) {
				delete(ns, f)
			}
			if stillFails(np, ns) {
				pkgs, src, changed = np, ns, true
			}
		}
		// 2. whole files
		for _, dir := range pkgs {
			fs := filesOf(src, dir)
			for _, f := range fs {
				if len(filesOf(src, dir)) <= 1 {
					break
				}
				ns := copyMap(src)
				delete(ns, f)
				if stillFails(pkgs, ns) {
					src, changed = ns, true
				}
			}
		}
		// 3. blocks of lines: top-level declarations first (blank-line separated chunks), then single lines and pairs
		var names []string
		for k := range src {
			names = append(names, k)
		}
		sort.Strings(names)
		for _, f := range names {
			lines := strings.Split(src[f], "\n")
			try := func(from, to int) bool { // blank lines [from,to)
				if to > len(lines) {
					to = len(lines)
				}
				if from >= to {
					return false
				}
				nl := append([]string{}, lines...)
				any := false
				for i := from; i < to; i++ {
					if strings.TrimSpace(nl[i]) != "" {
						any = true
					}
					nl[i] = ""
				}
				if !any {
					return false
				}
				ns := copyMap(src)
				ns[f] = strings.Join(nl, "\n")
				if stillFails(pkgs, ns) {
					lines, src, changed = nl, ns, true
					return true
				}
				return false
			}
			// chunks separated by blank lines (never the package clause / imports)
			start := -1
			for i := 0; i <= len(lines); i++ {
				blank := i == len(lines) || strings.TrimSpace(lines[i]) == ""
				if !blank && start < 0 {
					start = i
				}
				if blank && start >= 0 {
					if !strings.HasPrefix(lines[start], "package ") && !strings.HasPrefix(lines[start], "import") {
						try(start, i)
					}
					start = -1
				}
			}
			for i := 0; i < len(lines); i++ {
				if strings.HasPrefix(lines[i], "package ") {
					continue
				}
				if !try(i, i+1) {
					if !try(i, i+2) {
						try(i, i+3)
					}
				}
			}
		}
	}
	// compress runs of blank lines and renumber the keys
	lineMap := map[string]map[int]int{}
	for f, s := range src {
		lines := strings.Split(s, "\n")
		var out []string
		lm := map[int]int{}
		prevBlank := false
		for i, l := range lines {
			blank := strings.TrimSpace(l) == ""
			if blank && prevBlank {
				continue
			}
			out = append(out, l)
			lm[i+1] = len(out)
			prevBlank = blank
		}
		src[f] = strings.Join(out, "\n")
		lineMap[f] = lm
	}
	raw, err := rd.put(e.Data, pkgs, src, lineMap)
	if err != nil {
		return e, before, before
	}
	// final safety: the reduced case must still fail in the same way
	if r := replay(raw); r == "" || failureClass(r) != class {
		return e, before, before
	}
	after := 0
	for _, s := range src {
		after += len(strings.Split(s, "\n"))
	}
	out := e
	out.Data = raw
	out.Summary = firstLine(replay(raw))
	return out, before, after
}

// TestReduce reduces the replay file named by VERIF_REPLAY in place.
func TestReduce(t *testing.T) {
	p := os.Getenv("VERIF_REPLAY")
	if p == "" {
		t.Skip("no VERIF_REPLAY")
	}
	b, err := os.ReadFile(p)
	if err != nil {
		t.Fatalf("%v", err)
	}
	var e Envelope
	if err := json.Unmarshal(b, &e); err != nil {
		t.Fatalf("%v", err)
	}
	r, before, after := reduceEnvelope(e)
	if after > 0 && after < before {
		out, _ := json.MarshalIndent(r, "", " ")
		if err := os.WriteFile(p, out, 0o644); err != nil {
			t.Fatalf("%v", err)
		}
		fmt.Printf("REDUCED %d -> %d lines: %s\n", before, after, r.Summary)
	} else {
		fmt.Printf("REDUCE-NOOP\n")
	}
}
