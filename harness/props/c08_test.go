package props

import (
	"encoding/json"
	"fmt"
	"strings"
	"testing"

	"pgregory.net/rapid"

	"verif/harness/engine"
	"verif/harness/ev"
	"verif/harness/proggen"
)

// c08Case: a program and a raw exclude-checks string; the run with it must
// equal the unrestricted run filtered by the reference matcher.
type c08Case struct {
	Pkgs    []string          `json:"pkgs"`
	Sources map[string]string `json:"sources"`
	Raw     string            `json:"exclude_checks_raw"`
	Via     string            `json:"via"` // parser (in-process through the repository's flag parser) | flag | env
}

var c08Tokens = []string{"ALL", "IMM", "CTOR", "TONL", "PKGO", "IMPL",
	"IMM01", "IMM02", "IMM03", "IMM04", "CTOR01", "CTOR02", "CTOR03", "TONL01", "TONL02", "TONL03", "PKGO01", "PKGO02", "PKGO03", "IMPL01", "IMPL02", "IMPL03",
	"IMM0", "IM", "IMM011", "AL", "*", "ALLL", "IMM*", "TONL1",
	// junk with interior blanks whose words are valid on their own (an item is never split at blanks)
	"IMM 01", "CTOR x", "all of", "IMM\tTONL"}

func c08RunInproc(pkgs []string, src map[string]string, raw *string) (map[string]bool, string) {
	cfg, err := engine.ParseConfig(nil, nil, raw)
	if err != nil {
		return nil, "flag parser rejected value: " + err.Error()
	}
	ld, err := engine.Load(enginePkgs(pkgs, src), engine.VirtualRoot, "go1.23")
	if err != nil {
		return nil, "load: " + err.Error()
	}
	res := engine.Analyze(ld, engine.Config{}, engine.Options{Sequential: true, RawConfig: cfg})
	if len(res.Panics) > 0 {
		return nil, "panic: " + res.Panics[0]
	}
	return siteKeys(src, res.Diags, 0, nil, true), ""
}

func c08Expected(base map[string]bool, raw string) map[string]bool {
	toks := refParseList(raw, true)
	out := map[string]bool{}
	for k := range base {
		code := k[strings.LastIndex(k, " ")+1:]
		if i := strings.Index(k, " (x"); i > 0 { // "sN CODE (x2)"
			code = strings.Fields(k)[1]
		}
		if !refExcluded(toks, code) {
			out[k] = true
		}
	}
	return out
}

func c08Check(c c08Case) string {
	switch c.Via {
	case "parser":
		base, why := c08RunInproc(c.Pkgs, c.Sources, nil)
		if why != "" {
			return "baseline: " + why
		}
		got, why := c08RunInproc(c.Pkgs, c.Sources, &c.Raw)
		if why != "" {
			return why
		}
		return diffSets(c08Expected(base, c.Raw), got, "expected(filtered baseline)", "tool")
	case "flag", "env":
		if engine.BinPath() == "" {
			return ""
		}
		dir, err := engine.Scratch()
		if err != nil {
			return ""
		}
		defer engine.RmScratch(dir)
		if err := engine.WriteToDisk(enginePkgs(c.Pkgs, c.Sources), dir); err != nil {
			return ""
		}
		b := engine.RunBinary(dir, nil, nil, "./...")
		var r *engine.ProcResult
		if c.Via == "flag" {
			r = engine.RunBinary(dir, []string{"--config.exclude-checks=" + c.Raw}, nil, "./...")
		} else {
			r = engine.RunBinary(dir, nil, []string{"GOGREEMENT_EXCLUDE_CHECKS=" + c.Raw}, "./...")
		}
		if len(b.Panics)+len(r.Panics) > 0 {
			return fmt.Sprintf("binary crashed: %v %v", b.Panics, r.Panics)
		}
		if len(r.Errors) > 0 || (r.Exit != 0 && r.Exit != 3) {
			return fmt.Sprintf("binary failed: exit %d %v %s", r.Exit, r.Errors, firstLine(r.Stderr))
		}
		base := siteKeys(c.Sources, b.Diags, 0, nil, true)
		got := siteKeys(c.Sources, r.Diags, 0, nil, true)
		return diffSets(c08Expected(base, c.Raw), got, "expected(filtered baseline)", "tool")
	}
	return "unknown via"
}

func init() {
	replayers["c08"] = func(data json.RawMessage) string {
		var c c08Case
		if err := json.Unmarshal(data, &c); err != nil {
			return "bad replay: " + err.Error()
		}
		return c08Check(c)
	}
}

// c08Spell renders a token list with random case and spacing.
func c08Spell(rt *rapid.T, toks []string) string {
	var parts []string
	for _, t := range toks {
		switch rapid.IntRange(0, 3).Draw(rt, "case") {
		case 0:
			t = strings.ToLower(t)
		case 1:
			t = mixCase(rt, t)
		}
		t = rapid.SampledFrom([]string{"", " ", "\t", "  "}).Draw(rt, "pre") + t + rapid.SampledFrom([]string{"", " ", "  "}).Draw(rt, "post")
		parts = append(parts, t)
	}
	if rapid.IntRange(0, 4).Draw(rt, "emptyItem") == 0 {
		parts = append(parts, "")
	}
	return strings.Join(parts, ",")
}

func TestC08(t *testing.T) {
	const id = "C08"
	checkWitnesses(t, id)
	checkRegressions(t, id)
	ev.Rule(id, "differential against the unrestricted run: run(S) must equal {d in run(no exclusion) : code(d) not matched by S under ALL>category>code} with a restated reference matcher. (a) exhaustive: every single token and every ordered pair of the 34-token alphabet {ALL, 5 categories, 16 codes, 12 junk tokens, four of them with interior blanks around valid words} on a fixed probe module producing all 16 codes and (singletons, pairs of codes / categories) on a second fixed module in which diagnostics of different codes are nested inside one expression, through the repository's own flag-value parser in-process; (b) rapid: random subsets in random case / spacing / empty items on rapid-generated programs; (c) the real binary with --config.exclude-checks and with GOGREEMENT_EXCLUDE_CHECKS on probe and generated programs. non-trivial = S changes the result and does not contain ALL, or S is junk-only on a non-empty baseline; distinct by (program hash, raw string)")
	pkgs, src := probeSources()
	base, why := c08RunInproc(pkgs, src, nil)
	if why != "" {
		t.Fatalf("probe baseline: %s", why)
	}
	// the probe must produce all 16 codes (otherwise the check would be vacuous)
	seen := map[string]bool{}
	for k := range base {
		seen[strings.Fields(k)[1]] = true
	}
	for _, c := range allCodes {
		if !seen[c] {
			t.Fatalf("GENERATOR-BUG probe module does not produce %s: %v", c, sortedSet(base))
		}
	}
	si, sn := shard()
	n := 0
	one := func(raw string) {
		n++
		if n%sn != si {
			return
		}
		c := c08Case{Pkgs: pkgs, Sources: src, Raw: raw, Via: "parser"}
		ev.Eval(id)
		if why := c08Check(c); why != "" {
			violation(t, id, "c08", "exhaustive", len(raw), c, "exclude-checks=%q: %s", raw, why)
		}
		toks := refParseList(raw, true)
		exp := c08Expected(base, raw)
		hasAll := false
		junkOnly := true
		for _, tk := range toks {
			if tk == "ALL" {
				hasAll = true
			}
			if refCategoryOf(tk) != "" || tk == "ALL" {
				junkOnly = false
			}
		}
		if (len(exp) != len(base) && !hasAll) || (junkOnly && len(toks) > 0) {
			ev.NonTrivial(id, ev.Hash("probe", raw))
		}
	}
	for _, a := range c08Tokens {
		one(a)
		one(strings.ToLower(a))
		for _, b := range c08Tokens {
			one(a + "," + b)
			one(" " + strings.ToLower(a) + " , " + b + " ,")
		}
	}
	// the same on the nested probe (codes nested inside one another): singletons of
	// every token, pairs of the code and category tokens
	npkgs, nsrc := nestedProbeSources()
	nbase, why := c08RunInproc(npkgs, nsrc, nil)
	if why != "" {
		t.Fatalf("nested probe baseline: %s", why)
	}
	for _, want := range []string{"s1 TONL01", "s1 TONL02", "s2 TONL02", "s2 TONL03 (x2)", "s3 PKGO01", "s3 PKGO02", "s3 PKGO03 (x2)", "s4 IMM03", "s4 IMM04", "s5 IMM01", "s5 IMM02", "s5 CTOR01", "s6 CTOR01", "s6 CTOR02"} {
		if !nbase[want] {
			t.Fatalf("GENERATOR-BUG nested probe does not produce %q: %v", want, sortedSet(nbase))
		}
	}
	oneNested := func(raw string) {
		n++
		if n%sn != si {
			return
		}
		c := c08Case{Pkgs: npkgs, Sources: nsrc, Raw: raw, Via: "parser"}
		ev.Eval(id)
		if why := c08Check(c); why != "" {
			violation(t, id, "c08", "exhaustive-nested", len(raw), c, "nested probe, exclude-checks=%q: %s", raw, why)
		}
		if exp := c08Expected(nbase, raw); len(exp) != len(nbase) && len(exp) > 0 {
			ev.NonTrivial(id, ev.Hash("nested-probe", raw))
		}
	}
	for _, a := range c08Tokens {
		oneNested(a)
		if refCategoryOf(a) == "" {
			continue
		}
		for _, b := range c08Tokens {
			if refCategoryOf(b) != "" {
				oneNested(a + "," + b)
			}
		}
	}
	ev.Class(id, "exhaustive singletons+pairs done")
	ev.Set(id, "exhaustive_token_alphabet", len(c08Tokens))
	ev.Sample(id, map[string]interface{}{"program": "probe (all 16 codes)", "exclude_checks": "imm , CTOR02 ,", "baseline": sortedSet(base), "expected": sortedSet(c08Expected(base, "imm , CTOR02 ,"))})

	binBudget := scale(40, 1500) / sn
	binN := 0
	rapid.Check(t, func(rt *rapid.T) {
		k := rapid.IntRange(0, 4).Draw(rt, "ntokens")
		var toks []string
		for i := 0; i < k; i++ {
			toks = append(toks, c08Tokens[rapid.IntRange(0, len(c08Tokens)-1).Draw(rt, "tok")])
		}
		// a list that repeats one code as often as its category has codes (and may add a
		// second one): repeated entries are entries, not further codes
		if rapid.IntRange(0, 9).Draw(rt, "repeatedCode") < 2 {
			cats := map[string][]string{"IMM": {"IMM01", "IMM02", "IMM03", "IMM04"}, "CTOR": {"CTOR01", "CTOR02", "CTOR03"}, "TONL": {"TONL01", "TONL02", "TONL03"}, "PKGO": {"PKGO01", "PKGO02", "PKGO03"}, "IMPL": {"IMPL01", "IMPL02", "IMPL03"}}
			cat := rapid.SampledFrom([]string{"IMM", "CTOR", "TONL", "PKGO", "IMPL"}).Draw(rt, "repCat")
			codes := cats[cat]
			one := codes[rapid.IntRange(0, len(codes)-1).Draw(rt, "repCode")]
			toks = nil
			for i, n := 0, len(codes)+rapid.IntRange(-1, 1).Draw(rt, "repExtra"); i < n; i++ {
				toks = append(toks, one)
			}
			if rapid.Bool().Draw(rt, "repSecond") {
				toks = append(toks, codes[rapid.IntRange(0, len(codes)-1).Draw(rt, "repCode2")])
			}
			ev.Class(id, "list repeating one code")
		}
		useProbe := rapid.IntRange(0, 3).Draw(rt, "useProbe") == 0
		var src2 map[string]string
		var pkgs2 []string
		if !useProbe {
			p := proggen.Gen(rt, proggen.GenOpts{Focus: "all", MinPkgs: 1, MaxPkgs: 3, Rich: true})
			// project-wide exclusion must not depend on the @ignore comments a package happens to contain
			if nodes := p.Nodes(); len(nodes) > 0 && rapid.Bool().Draw(rt, "withIgnoreComments") {
				// aim some comments at reported statements and name two codes: the code reported
				// there and another one, which the exclusion list is then made to contain
				var hot []proggen.NodeRef
				hotCode := map[*proggen.Node]string{}
				if pre, _, err := engine.RunInproc(p.ToEngine(), engine.DefaultConfig(), engine.Options{Sequential: true}); err == nil {
					bySite, _ := proggen.SiteDiags(p, pre.Diags)
					for _, nd := range nodes {
						for _, sid := range nd.Sites {
							for code := range bySite[sid] {
								hot = append(hot, nd)
								hotCode[nd.Node] = code
								break
							}
							if hotCode[nd.Node] != "" {
								break
							}
						}
					}
				}
				for i, n := 0, rapid.IntRange(1, 3).Draw(rt, "nIgnore"); i < n; i++ {
					nd := nodes[rapid.IntRange(0, len(nodes)-1).Draw(rt, "ignoreNode")]
					cm := "// @ignore " + rapid.SampledFrom([]string{"IMM03", "CTOR", "TONL01, PKGO01", "ZZZ9", "IMPL"}).Draw(rt, "ignoreCodes")
					if len(hot) > 0 && rapid.IntRange(0, 9).Draw(rt, "aimed") < 6 {
						nd = hot[rapid.IntRange(0, len(hot)-1).Draw(rt, "hotNode")]
						other := rapid.SampledFrom([]string{"IMM01", "IMM", "CTOR01", "CTOR", "TONL02", "PKGO", "PKGO02", "IMPL03", "TONL"}).Draw(rt, "otherCode")
						if rapid.Bool().Draw(rt, "otherFirst") {
							cm = "// @ignore " + other + ", " + hotCode[nd.Node]
						} else {
							cm = "// @ignore " + hotCode[nd.Node] + ", " + other
						}
						if rapid.IntRange(0, 9).Draw(rt, "excludeOther") < 7 {
							toks = append(toks, other)
						}
						ev.Class(id, "multi-code @ignore over a reported statement, one of its codes excluded project-wide")
					}
					if rapid.Bool().Draw(rt, "ignoreTrailing") {
						nd.Node.Trailing = cm
					} else {
						nd.Node.Before = append(nd.Node.Before, cm)
					}
				}
				p.Render()
				ev.Class(id, "program contains @ignore comments")
			}
			pkgs2, src2 = pkgDirs(p), p.Sources()
		}
		raw := c08Spell(rt, toks)
		c := c08Case{Pkgs: pkgs, Sources: src, Raw: raw, Via: "parser"}
		if src2 != nil {
			c.Pkgs, c.Sources = pkgs2, src2
		}
		if binN < binBudget && engine.BinPath() != "" && rapid.IntRange(0, 9).Draw(rt, "viaBinary") == 0 {
			binN++
			c.Via = rapid.SampledFrom([]string{"flag", "env"}).Draw(rt, "via")
			if c.Via == "env" && strings.ContainsAny(raw, "\x00") {
				c.Via = "flag"
			}
		}
		ev.Eval(id)
		ev.Class(id, "via "+c.Via)
		if why := c08Check(c); why != "" {
			violation(rt, id, "c08", "rapid", len(raw)+len(c.Sources)*50, c, "exclude-checks=%q via %s: %s", raw, c.Via, why)
		}
		if len(toks) > 0 && c.Via == "parser" {
			hasAll, junkOnly := false, true
			for _, tk := range refParseList(raw, true) {
				if tk == "ALL" {
					hasAll = true
				}
				if refCategoryOf(tk) != "" || tk == "ALL" {
					junkOnly = false
				}
			}
			if b, why := c08RunInproc(c.Pkgs, c.Sources, nil); why == "" && len(b) > 0 {
				changed := len(c08Expected(b, raw)) != len(b)
				if (changed && !hasAll) || junkOnly {
					ev.NonTrivial(id, ev.Hash(fmt.Sprint(c.Sources), raw))
				}
			}
		}
		if ev.SampleCount(id) < 4 && !useProbe && len(toks) >= 2 && len(c.Sources) <= 3 {
			ev.Sample(id, map[string]interface{}{"exclude_checks_raw": raw, "via": c.Via, "sources": c.Sources})
		}
	})
}
