package props

import (
	"fmt"
	"testing"

	"verif/harness/ev"
	"verif/harness/proggen"
)

func TestC03(t *testing.T) {
	exactProperty(t, exactSpec{
		id: "C03", focus: "tonl", prefix: "TONL", expect: proggen.ExpectTONL,
		rule: "rapid-generated multi-package programs with @testonly types / functions / methods in the same and in imported packages; use sites: F(), pkg.F(), value/pointer method calls, method-expression calls, literals T{} / &T{} / elided, var x T, var x *T, struct fields, parameters, results; in test and non-test files, inside and outside @testonly functions, several uses per file in varying order; decoys: local closure named like a @testonly function, same-named methods on other types, same-named @testonly types of two packages in one file. oracle = model rule (TONL02/03 at every call outside test files and outside @testonly declarations; TONL01 exactly once per (file, defining package, type) at the first judged use; shapes the statement leaves open - receivers, new(T), conversions, uncalled function values - are tolerated, not required). non-trivial = a file with >=2 uses of one @testonly type, or a decoy next to a real use; distinct by source hash",
		nontriv: func(p *proggen.Prog, e *proggen.Expect) bool {
			if e.Count() == 0 && len(e.OneOf) == 0 {
				return false
			}
			type k struct {
				f *proggen.File
				t *proggen.TypeDecl
			}
			cnt := map[k]int{}
			decoy := false
			p.Walk(func(si proggen.SiteInfo) {
				if si.Site.Kind == "decoycall" {
					decoy = true
				}
				if si.Ctx.File.IsTest() {
					return
				}
				for _, evn := range si.Site.Events() {
					if evn.Cat == "MENTION" && evn.Type.TestOnly {
						cnt[k{si.Ctx.File, evn.Type}]++
					}
				}
			})
			for _, n := range cnt {
				if n >= 2 {
					return true
				}
			}
			return decoy
		},
		classify: func(id string, p *proggen.Prog, e *proggen.Expect) {
			p.Walk(func(si proggen.SiteInfo) {
				if si.Site.Kind == "mcall.chain" {
					n := 0
					for _, c := range e.Counts[si.Site.ID] {
						n += c
					}
					ev.Class(id, fmt.Sprintf("chained call x.M1().M2() with %d expected reports", n))
				}
			})
			for _, pk := range p.Pkgs {
				if pk.Consumer {
					ev.Class(id, "program with a package that declares no annotations of its own")
					break
				}
			}
			p.Walk(func(si proggen.SiteInfo) {
				for _, evn := range si.Site.Events() {
					var item string
					switch {
					case evn.Cat == "MENTION" && evn.Type.TestOnly:
						item = "type-use(" + evn.Mention + ")"
					case evn.Fn != nil && evn.Fn.TestOnly:
						item = evn.Cat
					default:
						continue
					}
					verdict := "silent"
					for _, c := range []string{"TONL01", "TONL02", "TONL03"} {
						if e.Must[si.Site.ID][c] {
							verdict = "reported " + c
						} else if e.May[si.Site.ID][c] && verdict == "silent" {
							verdict = "open"
						}
					}
					enc := "plain"
					if si.Ctx.Func != nil && si.Ctx.Func.TestOnly {
						enc = "in-testonly-func"
					}
					if si.Ctx.File.IsTest() {
						enc = "testfile"
					}
					ev.Class(id, fmt.Sprintf("%s %s %s", item, verdict, enc))
				}
				if si.Site.Kind == "decoycall" {
					ev.Class(id, "decoy local closure named like @testonly func")
				}
			})
			ev.ClassN(id, "once-per-file groups with open shapes first", int64(len(e.OneOf)))
		},
	})
}
