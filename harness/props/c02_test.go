package props

import (
	"fmt"
	"testing"

	"verif/harness/ev"
	"verif/harness/proggen"
)

func TestC02(t *testing.T) {
	exactProperty(t, exactSpec{
		id: "C02", focus: "ctor", prefix: "CTOR", expect: proggen.ExpectCTOR,
		rule: "rapid-generated multi-package programs; instantiation sites T{}, &T{}, elided element literals in []T{{}}, []*T{{}}, map[string]T{k:{}}, new(T), var x T, var x,y T, and negatives var p *T, var _ T, var x T = MkT(), var x = MkT(), unannotated types; at package level (var g = T{}, var g T, grouped), before/after the constructor in the file, in closures/nested blocks/other files/importing packages, inside listed constructors and inside functions that merely share a constructor's name in another package; constructor lists in every accepted spelling. oracle = model rule reported(CTOR01/02/03 by kind) <=> type has @constructor and visible and not (enclosing top-level function listed and in the type's own package). non-trivial = program with >=1 expected CTOR diagnostic and >=1 exempt site inside a listed constructor; distinct by source hash",
		nontriv: func(p *proggen.Prog, e *proggen.Expect) bool {
			if e.Count() == 0 {
				return false
			}
			exempt := false
			p.Walk(func(si proggen.SiteInfo) {
				for _, evn := range si.Site.Events() {
					if evn.Cat == "CTOR" && evn.Type.HasCtor() && containerOf(si, evn.Type) == "constructor" {
						exempt = true
					}
				}
			})
			return exempt
		},
		classify: func(id string, p *proggen.Prog, e *proggen.Expect) {
			for _, td := range p.AllTypes() {
				if len(td.Constructors) >= 4 {
					ev.Class(id, "program with a type naming 4-5 constructors")
					break
				}
			}
			p.Walk(func(si proggen.SiteInfo) {
				for _, evn := range si.Site.Events() {
					if evn.Cat != "CTOR" {
						continue
					}
					verdict := "silent"
					if e.Must[si.Site.ID][evn.Code] {
						verdict = "reported"
					} else if e.May[si.Site.ID][evn.Code] {
						verdict = "open"
					}
					where := "same"
					if evn.Type.Pkg != si.Ctx.Pkg {
						where = "imported"
					}
					ev.Class(id, fmt.Sprintf("site %s(%s) %s %s in %s", evn.Code, si.Site.Kind, verdict, where, containerOf(si, evn.Type)))
					ev.Class(id, "wrap "+wrapsShort(si.Ctx.Wraps))
				}
			})
		},
	})
}
