package props

import (
	"encoding/json"
	"fmt"
	"go/ast"
	"go/parser"
	"go/token"
	"os"
	"path"
	"regexp"
	"sort"
	"strings"
	"testing"

	"pgregory.net/rapid"

	"verif/harness/engine"
	"verif/harness/ev"
	"verif/harness/proggen"
)

// restated tables (documentation, not read from the code)
var c17Analyzer = map[string]string{"IMM": "immutabilitychecker", "CTOR": "constructorchecker", "TONL": "testonlychecker", "PKGO": "packageonlychecker", "IMPL": "implementschecker"}
var c17Help = map[string]string{
	"IMM":  "https://a14e.github.io/gogreement/02_02_immutable.html",
	"CTOR": "https://a14e.github.io/gogreement/02_03_constructor.html",
	"TONL": "https://a14e.github.io/gogreement/02_04_testonly.html",
	"PKGO": "https://a14e.github.io/gogreement/02_05_packageonly.html",
	"IMPL": "https://a14e.github.io/gogreement/02_01_implements.html",
}

var bracketRe = regexp.MustCompile(`\[([A-Z]+[0-9]*)\]`)
var excerptStartRe = regexp.MustCompile(`(?m)^ *\|$`)
var helpRe = regexp.MustCompile(`(?m)^   = help: (\S+)$`)
var textDiagRe = regexp.MustCompile(`(?m)^\S+\.go:\d+:\d+: `)

type c17Case struct {
	Pkgs    []string          `json:"pkgs"`
	Sources map[string]string `json:"sources"` // without tag comments
	// the diagnostic whose own code is appended as inline @ignore (empty = only static checks)
	File string `json:"file,omitempty"`
	Line int    `json:"line,omitempty"`
	Code string `json:"code,omitempty"`
}

var tagStripRe = regexp.MustCompile(`\s*(?://|/\*) s\d+\b(?: \*/)?`)

func stripTags(src map[string]string) map[string]string {
	out := map[string]string{}
	for k, v := range src {
		out[k] = tagStripRe.ReplaceAllString(v, "")
	}
	return out
}

// c17Static checks the well-formedness of one diagnostic of a binary run.
func c17Static(d engine.Diag, sources map[string]string, pkgDir func(string) string, withExcerpt bool) string {
	if !strings.HasPrefix(d.Message, "error: [") {
		return fmt.Sprintf("message does not start with 'error: [CODE]': %q", firstLine(d.Message))
	}
	codes := map[string]bool{}
	header := d.Message
	if loc := excerptStartRe.FindStringIndex(d.Message); loc != nil {
		header = d.Message[:loc[0]]
	}
	for _, m := range bracketRe.FindAllStringSubmatch(header, -1) {
		if refCategoryOf(m[1]) != "" && m[1] != refCategoryOf(m[1]) {
			codes[m[1]] = true
		}
	}
	if len(codes) != 1 {
		return fmt.Sprintf("message carries %d distinct documented codes %v: %q", len(codes), sortedSet(codes), firstLine(d.Message))
	}
	code := d.Code
	if !codes[code] {
		return fmt.Sprintf("first bracket %q is not the documented code %v", code, sortedSet(codes))
	}
	cat := refCategoryOf(code)
	if c17Analyzer[cat] != d.Analyzer {
		return fmt.Sprintf("%s reported by analyzer %s, expected %s", code, d.Analyzer, c17Analyzer[cat])
	}
	if want := pkgDir(d.Pkg); want != "" && path.Dir(d.File) != want {
		return fmt.Sprintf("%s for package %s is positioned in %s", code, d.Pkg, d.File)
	}
	if refSkipFile("/x/"+d.File, false, []string{"testdata"}) {
		return fmt.Sprintf("%s positioned in an excluded file %s", code, d.File)
	}
	if !withExcerpt {
		return ""
	}
	hm := helpRe.FindAllStringSubmatch(d.Message, -1)
	if len(hm) != 1 || hm[0][1] != c17Help[cat] {
		return fmt.Sprintf("%s: help link %v, expected exactly %s", code, hm, c17Help[cat])
	}
	// the excerpt must satisfy C19's validity predicate on the real file
	src, ok := sources[d.File]
	if !ok {
		return ""
	}
	loc := excerptStartRe.FindStringIndex(d.Message)
	if loc == nil {
		return fmt.Sprintf("%s: readable file but no excerpt in the message", code)
	}
	lines := strings.Split(strings.TrimSuffix(src, "\n"), "\n")
	cc := c19Case{Lines: lines, Line: d.Line, Col: d.Col, ReadMode: "ok"}
	if why := c19ValidateExcerpt(cc, d.Message[loc[0]:]); why != "" {
		return fmt.Sprintf("%s at %s:%d:%d: excerpt: %s", code, d.File, d.Line, d.Col, why)
	}
	return ""
}

// c17Suppress appends `// @ignore CODE` to the diagnostic's line and compares
// the in-process results before and after.
func c17Suppress(c c17Case) string {
	cfg := engine.DefaultConfig()
	before, _, err := engine.RunInproc(enginePkgs(c.Pkgs, c.Sources), cfg, engine.Options{Sequential: true})
	if err != nil {
		return "GENERATOR-BUG " + err.Error()
	}
	with := map[string]string{}
	for k, v := range c.Sources {
		with[k] = v
	}
	ls := strings.Split(c.Sources[c.File], "\n")
	if c.Line < 1 || c.Line > len(ls) {
		return "GENERATOR-BUG line out of range"
	}
	if strings.Contains(ls[c.Line-1], "//") || strings.Contains(ls[c.Line-1], "/*") || strings.Contains(ls[c.Line-1], "`") {
		return "SKIP line already carries a comment"
	}
	ls[c.Line-1] += " // @ignore " + c.Code
	with[c.File] = strings.Join(ls, "\n")
	after, ld, err := engine.RunInproc(enginePkgs(c.Pkgs, with), cfg, engine.Options{Sequential: true})
	if err != nil {
		return "GENERATOR-BUG " + err.Error()
	}
	if len(ld.TypeErrs) > 0 {
		return "GENERATOR-BUG appended comment broke the program: " + ld.TypeErrs[0]
	}
	if len(before.Panics)+len(after.Panics) > 0 {
		return fmt.Sprintf("panic: %v %v", before.Panics, after.Panics)
	}
	return c17CompareSuppress(before.Diags, after.Diags, c.File, c.Line, c.Code)
}

// c17CompareSuppress: after `// @ignore CODE` was appended to file:line, the
// diagnostics with that code on that line must be gone and nothing else may
// differ, except once-per-file codes re-appearing later in the file for the same type.
func c17CompareSuppress(before, after []engine.Diag, file string, line int, code string) string {
	key := func(d engine.Diag) string {
		return fmt.Sprintf("%s:%d:%d %s %s", d.File, d.Line, d.Col, d.Code, firstLine(d.Message))
	}
	a, b := map[string]engine.Diag{}, map[string]engine.Diag{}
	for _, d := range before {
		a[key(d)] = d
	}
	for _, d := range after {
		b[key(d)] = d
	}
	var probs []string
	removedTypes := map[string]bool{}
	for k, d := range a {
		onLine := d.File == file && d.Line == line && d.Code == code
		_, still := b[k]
		switch {
		case onLine && still:
			probs = append(probs, "not suppressed by its own displayed code: "+k)
		case !onLine && !still:
			probs = append(probs, "another diagnostic disappeared: "+k)
		}
		if onLine {
			removedTypes[firstLine(d.Message)] = true
		}
	}
	for k, d := range b {
		if _, was := a[k]; was {
			continue
		}
		// once-per-file re-reporting: same code, same file, same message (same type), later position
		ok := (code == "TONL01" || code == "PKGO01") && d.Code == code && d.File == file && d.Line > line && removedTypes[firstLine(d.Message)]
		if !ok {
			probs = append(probs, "new diagnostic appeared: "+k)
		}
	}
	sort.Strings(probs)
	return strings.Join(probs, "; ")
}


// c17SiblingBlock inserts `// @ignore <other code of d's category>` as a line of its
// own in front of the top-level declaration (its doc comment included) that holds d's
// line; it returns the new sources and d's shifted line, or nil.
func c17SiblingBlock(src map[string]string, d engine.Diag) (map[string]string, int) {
	if len(d.Code) < 6 {
		return nil, 0
	}
	sib := d.Code[:len(d.Code)-1] + "1"
	if sib == d.Code {
		sib = d.Code[:len(d.Code)-1] + "2"
	}
	fset := token.NewFileSet()
	f, err := parser.ParseFile(fset, d.File, src[d.File], parser.ParseComments)
	if err != nil {
		return nil, 0
	}
	for _, dc := range f.Decls {
		from, to := fset.Position(dc.Pos()).Line, fset.Position(dc.End()).Line
		var doc *ast.CommentGroup
		switch x := dc.(type) {
		case *ast.FuncDecl:
			doc = x.Doc
		case *ast.GenDecl:
			doc = x.Doc
			if x.Tok == token.IMPORT {
				continue
			}
		}
		if doc != nil {
			from = fset.Position(doc.Pos()).Line
		}
		if d.Line < fset.Position(dc.Pos()).Line || d.Line > to {
			continue
		}
		ls := strings.Split(src[d.File], "\n")
		out := append([]string{}, ls[:from-1]...)
		out = append(out, "// @ignore "+sib)
		out = append(out, ls[from-1:]...)
		with := map[string]string{}
		for k, v := range src {
			with[k] = v
		}
		with[d.File] = strings.Join(out, "\n")
		return with, d.Line + 1
	}
	return nil, 0
}

func init() {
	replayers["c17"] = func(data json.RawMessage) string {
		var c c17Case
		if err := json.Unmarshal(data, &c); err != nil {
			return "bad replay: " + err.Error()
		}
		if c.Code != "" {
			why := c17Suppress(c)
			if strings.HasPrefix(why, "GENERATOR-BUG") || strings.HasPrefix(why, "SKIP") {
				return ""
			}
			return why
		}
		return c17BinaryChecks(c, nil)
	}
}

// c17BinaryChecks runs the real binary in -json and in text mode and applies the static checks.
func c17BinaryChecks(c c17Case, seen map[string]int) string {
	if engine.BinPath() == "" {
		return ""
	}
	dir, err := engine.Scratch()
	if err != nil {
		return ""
	}
	defer engine.RmScratch(dir)
	if err := engine.WriteToDisk(enginePkgs(c.Pkgs, c.Sources), dir); err != nil {
		return ""
	}
	pr := engine.RunBinary(dir, nil, nil, "./...")
	if len(pr.Panics) > 0 || len(pr.Errors) > 0 || pr.Exit != 0 {
		return fmt.Sprintf("binary -json failed: exit %d %v %v", pr.Exit, pr.Panics, pr.Errors)
	}
	pkgDir := func(id string) string {
		id = strings.Fields(id)[0]
		id = strings.TrimSuffix(id, "_test")
		return strings.TrimPrefix(id, proggen.Module+"/")
	}
	for _, d := range pr.Diags {
		if why := c17Static(d, c.Sources, pkgDir, true); why != "" {
			return why
		}
		if seen != nil {
			seen[d.Code]++
		}
	}
	tx := engine.RunBinaryText(dir, nil, nil, "./...")
	if len(tx.Panics) > 0 {
		return "binary (text mode) crashed: " + tx.Panics[0]
	}
	printed := len(textDiagRe.FindAllString(tx.Stderr+tx.Stdout, -1))
	if (tx.Exit != 0) != (printed > 0) {
		return fmt.Sprintf("text mode: exit status %d with %d diagnostics printed (json run had %d)", tx.Exit, printed, len(pr.Diags))
	}
	if (printed > 0) != (len(pr.Diags) > 0) {
		return fmt.Sprintf("text mode printed %d diagnostics, json mode %d", printed, len(pr.Diags))
	}
	return ""
}

func TestC17(t *testing.T) {
	const id = "C17"
	checkWitnesses(t, id)
	checkRegressions(t, id)
	ev.Rule(id, "every diagnostic of (a) the 16-code probe module and rapid-generated all-annotation programs through the real binary (-json and text mode) and (b) rapid-generated programs in-process: exactly one distinct code of the restated 16-entry table in [CODE] form, reported by the analyzer of its category, positioned in a non-excluded file of the analysed package, help link = the category's page, excerpt valid by C19's predicate on the real file; then for sampled diagnostics `// @ignore <displayed code>` is appended to the diagnostic's line and the program re-analysed: that diagnostic (and same-code diagnostics of that line) must vanish, nothing else may change except the once-per-file codes re-appearing later in the same file for the same type; text mode: exit status non-zero <=> at least one file:line:col line printed. non-trivial = diagnostic checked including the append-and-rerun step; distinct by (source hash, position, code)")
	si, sn := shard()
	_ = si
	binBudget := scale(40, 3000) / sn
	binN := 0
	seen := map[string]int{}
	// probe first
	pp, psrc := probeSources()
	pc := c17Case{Pkgs: pp, Sources: stripTags(psrc)}
	if why := c17BinaryChecks(pc, seen); why != "" {
		violation(t, id, "c17", "probe", 0, pc, "probe module: %s", why)
	}
	for _, c := range allCodes {
		if seen[c] == 0 {
			t.Fatalf("GENERATOR-BUG probe does not produce %s through the binary: %v", c, seen)
		}
	}
	ev.Class(id, "probe through binary (all 16 codes)")
	if pres, _, err := engine.RunInproc(enginePkgs(pc.Pkgs, pc.Sources), engine.DefaultConfig(), engine.Options{Sequential: true}); err == nil {
		for _, d := range pres.Diags {
			sc := pc
			sc.File, sc.Line, sc.Code = d.File, d.Line, d.Code
			why := c17Suppress(sc)
			if strings.HasPrefix(why, "SKIP") || strings.HasPrefix(why, "GENERATOR-BUG") {
				t.Fatalf("GENERATOR-BUG probe append step: %s", why)
			}
			if why != "" {
				violation(t, id, "c17", "probe-suppress", 0, sc, "probe: appending // @ignore %s to %s:%d: %s", d.Code, d.File, d.Line, why)
			}
			ev.Eval(id)
			ev.Class(id, "append-and-rerun "+d.Code)
			ev.NonTrivial(id, ev.Hash("probe", d.File, fmt.Sprint(d.Line), d.Code))
		}
	}
	rapid.Check(t, func(rt *rapid.T) {
		p := proggen.Gen(rt, proggen.GenOpts{Focus: "all", MinPkgs: 1, MaxPkgs: 3, TestFiles: true, XTest: true, Aliases: true, Rich: true})
		// a file whose NAME (not its directory) matches the default exclude-paths entry,
		// next to ordinary files of the same package: nothing may be positioned in it
		if rapid.IntRange(0, 9).Draw(rt, "excludedByName") < 3 {
			var cands []*proggen.File
			for _, pk := range p.Pkgs {
				n := 0
				for _, f := range pk.Files {
					if f.Kind == proggen.FileRegular {
						n++
					}
				}
				for _, f := range pk.Files {
					if f.Kind == proggen.FileRegular && n >= 2 {
						cands = append(cands, f)
					}
				}
			}
			if len(cands) > 0 {
				f := cands[rapid.IntRange(0, len(cands)-1).Draw(rt, "excludedFile")]
				f.Name = rapid.SampledFrom([]string{"zz_testdata_fixtures.go", "a_testdata.go", "testdata.go"}).Draw(rt, "excludedName")
				ev.Class(id, "program with a file excluded by its name among ordinary files")
			}
		}
		src := stripTags(p.Sources())
		c := c17Case{Pkgs: pkgDirs(p), Sources: src}
		cfg := engine.DefaultConfig()
		res, ld, err := engine.RunInproc(enginePkgs(c.Pkgs, src), cfg, engine.Options{Sequential: true})
		if err != nil || len(ld.TypeErrs) > 0 {
			rt.Fatalf("GENERATOR-BUG %v %v", err, ld.TypeErrs)
		}
		ev.Eval(id)
		pkgDir := func(pid string) string {
			pid = strings.Fields(pid)[0]
			return strings.TrimPrefix(strings.TrimSuffix(pid, "_test"), proggen.Module+"/")
		}
		for _, d := range res.Diags {
			if why := c17Static(d, src, pkgDir, false); why != "" {
				violation(rt, id, "c17", "static", p.Size(), c, "%s", why)
			}
		}
		// append-and-rerun for up to 3 diagnostics
		if len(res.Diags) > 0 {
			// aimed: a diagnostic on a line that opens a construct spanning several lines
			// while a later line of the file carries the same code (an inline comment
			// covers its own line, not the construct)
			var aimed []engine.Diag
			for _, d := range res.Diags {
				ls := strings.Split(src[d.File], "\n")
				if d.Line < 1 || d.Line > len(ls) {
					continue
				}
				l := strings.TrimSpace(ls[d.Line-1])
				if !strings.HasSuffix(l, "{") && !strings.HasSuffix(l, "(") && !strings.HasSuffix(l, ",") {
					continue
				}
				for _, o := range res.Diags {
					if o.File == d.File && o.Code == d.Code && o.Line > d.Line {
						aimed = append(aimed, d)
						break
					}
				}
			}
			for k := 0; k < 3; k++ {
				d := res.Diags[rapid.IntRange(0, len(res.Diags)-1).Draw(rt, "diagIdx")]
				if k == 0 && len(aimed) > 0 && rapid.IntRange(0, 9).Draw(rt, "aimedDiag") < 7 {
					d = aimed[rapid.IntRange(0, len(aimed)-1).Draw(rt, "aimedIdx")]
					ev.Class(id, "append step aimed at a line that opens a multi-line construct holding the same code again")
				}
				sc := c
				sc.File, sc.Line, sc.Code = d.File, d.Line, d.Code
				// 30 %: the enclosing top-level declaration first receives a block-level
				// `// @ignore <sibling code of the same category>`; the inline comment appended
				// next is then a marker nested in one that does not cover its code
				if rapid.IntRange(0, 9).Draw(rt, "siblingBlock") < 3 {
					if with, line := c17SiblingBlock(src, d); with != nil {
						sc.Sources, sc.Line = with, line
						ev.Class(id, "append step inside a declaration under a block-level @ignore of a sibling code")
					}
				}
				why := c17Suppress(sc)
				if strings.HasPrefix(why, "SKIP") {
					ev.Class(id, "append step skipped (line already has a comment)")
					continue
				}
				if strings.HasPrefix(why, "GENERATOR-BUG") {
					rt.Fatalf("%s", why)
				}
				if why != "" {
					violation(rt, id, "c17", "suppress", p.Size(), sc, "appending // @ignore %s to %s:%d: %s", d.Code, d.File, d.Line, why)
				}
				ev.Eval(id)
				ev.Class(id, "append-and-rerun "+d.Code)
				ev.NonTrivial(id, ev.Hash(fmt.Sprint(src), d.File, fmt.Sprint(d.Line), d.Code))
			}
		}
		if binN < binBudget && rapid.IntRange(0, 4).Draw(rt, "viaBinary") == 0 {
			binN++
			local := map[string]int{}
			if why := c17BinaryChecks(c, local); why != "" {
				violation(rt, id, "c17", "binary", p.Size(), c, "%s", why)
			}
			for k, n := range local {
				ev.ClassN(id, "binary diagnostics checked (static + excerpt + help) "+k, int64(n))
			}
			ev.Class(id, "text-mode exit status checked")
		}
		if ev.SampleCount(id) < 2 && len(res.Diags) > 3 && p.Size() < 120 {
			var ds []string
			for _, d := range res.Diags {
				ds = append(ds, fmt.Sprintf("%s:%d:%d %s", d.File, d.Line, d.Col, firstLine(d.Message)))
			}
			ev.Sample(id, map[string]interface{}{"sources": src, "diagnostics": ds})
		}
	})
}

// TestC17Corpus: well-formedness of every diagnostic on real-world code with
// injected annotations: packages of the standard library that import nothing
// internal are COPIED into a scratch module with annotation lines inserted
// above 45% of their declarations and fields (files really on disk: positions,
// excerpts and file contents agree), analysed by the real analyzers, and every
// diagnostic is judged: code table, analyzer, position in a file of the
// analysed package, help link, excerpt valid by C19's predicate. No
// append-and-rerun here (the generated programs carry that step).
func TestC17Corpus(t *testing.T) {
	const id = "C17"
	dir, err := engine.Scratch()
	if err != nil {
		t.Fatalf("GENERATOR-BUG %v", err)
	}
	defer engine.RmScratch(dir)
	if err := os.MkdirAll(dir, 0o755); err != nil {
		t.Fatalf("GENERATOR-BUG %v", err)
	}
	os.WriteFile(dir+"/go.mod", []byte("module vf.test/corpus\n\ngo 1.23\n"), 0o644)
	os.WriteFile(dir+"/doc.go", []byte("package corpus\n"), 0o644)
	env := []string{"GOTOOLCHAIN=local"}
	patterns := []string{"container/list", "container/ring", "container/heap", "text/tabwriter", "bufio", "encoding/csv", "encoding/hex", "text/scanner", "go/scanner", "html", "mime/quotedprintable", "index/suffixarray"}
	if thorough() {
		patterns = []string{"std"}
	}
	infos, err := engine.GoList(dir, env, patterns...)
	if err != nil {
		t.Fatalf("GENERATOR-BUG go list: %v", err)
	}
	si, sn := shard()
	rounds := scale(1, 2)
	n := 0
	for round := 0; round < rounds; round++ {
	pkgLoop:
		for _, pi := range infos {
			if pi.Error != nil || pi.Incomplete || len(pi.DepsErrors) > 0 || len(pi.GoFiles) == 0 || pi.Name == "main" || len(pi.SFiles)+len(pi.CgoFiles) > 0 {
				continue
			}
			if strings.Contains(pi.ImportPath, "internal") || strings.Contains(pi.ImportPath, "vendor/") || pi.ImportPath == "unsafe" || pi.ImportPath == "runtime" || strings.HasPrefix(pi.ImportPath, "runtime/") || strings.HasPrefix(pi.ImportPath, "syscall") {
				continue
			}
			for _, im := range pi.Imports {
				if strings.Contains(im, "internal") || strings.HasPrefix(im, "vendor/") || im == "C" {
					continue pkgLoop // cannot live outside the standard library
				}
			}
			n++
			if n%sn != si {
				continue
			}
			cp := fmt.Sprintf("cp%d_%d", round, n)
			cpDir := dir + "/" + cp
			os.MkdirAll(cpDir, 0o755)
			content := map[string]string{}
			injected := 0
			for fn, src := range engine.ReadPackageFiles(pi, false) {
				pts, err := engine.InjectionPoints(fn, src)
				out := src
				if err == nil {
					at := map[int][]string{}
					for _, pt := range pts {
						h := ev.Hash("c17", fmt.Sprint(seed()), fmt.Sprint(round), pi.ImportPath, path.Base(fn), fmt.Sprint(pt.Line))
						v := int(h[0])*256 + int(h[1])
						if v%100 < 45 {
							pool := c10Annots[pt.Kind]
							at[pt.Line] = append(at[pt.Line], pool[v%len(pool)])
							injected++
						}
					}
					if len(at) > 0 {
						out = engine.InsertLines(src, at)
					}
				}
				dst := cpDir + "/" + path.Base(fn)
				if err := os.WriteFile(dst, out, 0o644); err != nil {
					t.Fatalf("GENERATOR-BUG %v", err)
				}
				content[dst] = string(out)
			}
			pkgs, err := engine.LoadReal(dir, env, nil, false, "./"+cp)
			if err != nil || len(pkgs) == 0 || len(pkgs[0].Errors) > 0 {
				ev.Class(id, "copied std package not loadable (not judged)")
				os.RemoveAll(cpDir)
				continue
			}
			res := engine.AnalyzeReal(pkgs, engine.DefaultConfig(), true)
			if len(res.Panics)+len(res.Errors) > 0 {
				ev.Class(id, "copied std package with analysis failure (C10's business)")
				os.RemoveAll(cpDir)
				continue
			}
			for _, d := range res.Diags {
				ev.Eval(id)
				if why := c17Static(d, content, func(string) string { return cpDir }, true); why != "" {
					rec := map[string]interface{}{"package": pi.ImportPath, "seed": seed(), "round": round, "file": path.Base(d.File), "line": d.Line, "col": d.Col, "message": d.Message, "source": content[d.File]}
					violation(t, id, "c17corpus", "corpus", len(d.Message), rec, "annotated copy of %s: %s", pi.ImportPath, why)
				}
				ev.NonTrivial(id, ev.Hash("corpus", pi.ImportPath, path.Base(d.File), fmt.Sprint(d.Line, d.Col), d.Code))
				ev.Class(id, "corpus diagnostic "+d.Code)
			}
			// append-and-rerun on real-world code: for a few diagnostics, `// @ignore CODE` is
			// appended to the line in the copied file and the package analysed again
			tried := 0
			for _, d := range res.Diags {
				if tried >= scale(1, 3) {
					break
				}
				h := ev.Hash("c17s", fmt.Sprint(seed()), pi.ImportPath, path.Base(d.File), fmt.Sprint(d.Line, d.Col))
				if h[0]%3 != 0 {
					continue
				}
				ls := strings.Split(content[d.File], "\n")
				if d.Line < 1 || d.Line > len(ls) || strings.Contains(ls[d.Line-1], "//") || strings.Contains(ls[d.Line-1], "/*") || strings.Contains(ls[d.Line-1], "`") {
					continue
				}
				tried++
				orig := content[d.File]
				ls[d.Line-1] += " // @ignore " + d.Code
				if err := os.WriteFile(d.File, []byte(strings.Join(ls, "\n")), 0o644); err != nil {
					break
				}
				pk2, err := engine.LoadReal(dir, env, nil, false, "./"+cp)
				ok := err == nil && len(pk2) > 0 && len(pk2[0].Errors) == 0
				var why string
				if ok {
					r2 := engine.AnalyzeReal(pk2, engine.DefaultConfig(), true)
					if len(r2.Panics)+len(r2.Errors) == 0 {
						why = c17CompareSuppress(res.Diags, r2.Diags, d.File, d.Line, d.Code)
					}
				}
				os.WriteFile(d.File, []byte(orig), 0o644)
				if !ok {
					ev.Class(id, "corpus: appended comment broke the file (a multi-line string or similar; not judged)")
					continue
				}
				ev.Eval(id)
				ev.Class(id, "corpus append-and-rerun "+d.Code)
				if why != "" {
					rec := map[string]interface{}{"package": pi.ImportPath, "seed": seed(), "round": round, "file": path.Base(d.File), "line": d.Line, "code": d.Code, "source": orig}
					violation(t, id, "c17corpus", "corpus-suppress", len(orig), rec, "annotated copy of %s: appending // @ignore %s to %s:%d: %s", pi.ImportPath, d.Code, path.Base(d.File), d.Line, why)
				}
			}
			ev.ClassN(id, "corpus annotations injected", int64(injected))
			ev.Class(id, "annotated std package checked")
			os.RemoveAll(cpDir)
		}
	}
}

func init() {
	replayers["c17corpus"] = func(data json.RawMessage) string {
		// depends on the installed toolchain's sources: the record names package, seed and round
		return ""
	}
}
