package props

import (
	"encoding/json"
	"fmt"
	"path"
	"sort"
	"strings"

	"verif/harness/engine"
	"verif/harness/ev"
	"verif/harness/proggen"
)

// progCase is the replayable form of "these sources must yield exactly these
// diagnostics for these code prefixes".
type progCase struct {
	Pkgs     []string          `json:"pkgs"` // package dirs in dependency order
	Sources  map[string]string `json:"sources"`
	Config   engine.Config     `json:"config"`
	Prefixes []string          `json:"prefixes"`
	Must     []string          `json:"must"` // file:line:code
	May      []string          `json:"may"`
	OneOf    [][]string        `json:"one_of,omitempty"` // exactly one key of each group
	Note     string            `json:"note,omitempty"`
}

func enginePkgs(pkgs []string, sources map[string]string) *engine.Program {
	ep := &engine.Program{Module: proggen.Module}
	for _, dir := range pkgs {
		p := &engine.Package{Path: proggen.Module + "/" + dir}
		var names []string
		for k := range sources {
			if path.Dir(k) == dir {
				names = append(names, k)
			}
		}
		sort.Strings(names)
		for _, k := range names {
			p.Files = append(p.Files, engine.File{Name: path.Base(k), Src: sources[k]})
		}
		ep.Pkgs = append(ep.Pkgs, p)
	}
	return ep
}

func pkgDirs(p *proggen.Prog) []string {
	var out []string
	for _, pk := range p.Pkgs {
		out = append(out, pk.Dir)
	}
	return out
}

// expectKeys converts an Expect (site ids) to file:line:code keys.
func expectKeys(p *proggen.Prog, e *proggen.Expect) (must, may []string, oneOf [][]string) {
	loc := map[int]string{}
	p.Walk(func(si proggen.SiteInfo) {
		loc[si.Site.ID] = fmt.Sprintf("%s/%s:%d", si.Ctx.Pkg.Dir, si.Ctx.File.Name, si.Site.Start)
	})
	// sites whose line is only known through the tag: scan rendered lines
	for _, pk := range p.Pkgs {
		for _, f := range pk.Files {
			for id, w := range p.TagLines() {
				loc[id] = fmt.Sprintf("%s:%d", w.File, w.Line)
			}
			_ = f
		}
	}
	for id, cs := range e.Must {
		for c := range cs {
			n := e.Counts[id][c]
			if n < 1 {
				n = 1
			}
			for i := 0; i < n; i++ {
				must = append(must, loc[id]+":"+c) // repeated = expected that many times
			}
		}
	}
	for id, cs := range e.May {
		for c := range cs {
			may = append(may, loc[id]+":"+c)
		}
	}
	sort.Strings(must)
	sort.Strings(may)
	for _, grp := range e.OneOf {
		var g []string
		for _, sc := range grp {
			g = append(g, loc[sc.Site]+":"+sc.Code)
		}
		oneOf = append(oneOf, g)
	}
	return
}

func runProgCase(c progCase) string {
	res, _, err := engine.RunInproc(enginePkgs(c.Pkgs, c.Sources), c.Config, engine.Options{Sequential: true})
	if err != nil {
		return "load error: " + err.Error()
	}
	if len(res.Panics) > 0 {
		return "analyzer panic: " + res.Panics[0]
	}
	got := engine.KeyCounts(res.Diags, c.Prefixes...)
	must := map[string]int{}
	may := map[string]bool{}
	for _, k := range c.Must {
		must[k]++
	}
	for _, k := range c.May {
		may[k] = true
	}
	if proggen.Feasible(got, must, may, c.OneOf) {
		return ""
	}
	var probs []string
	for _, grp := range c.OneOf {
		n := 0
		for _, k := range grp {
			may[k] = true
			n += got[k]
		}
		if n != 1 {
			probs = append(probs, fmt.Sprintf("once-per-file group %v reported %d times", grp, n))
		}
	}
	for k, want := range must {
		switch n := got[k]; {
		case n == 0:
			probs = append(probs, "missing "+k)
		case n != want:
			probs = append(probs, fmt.Sprintf("%s reported %d times instead of %d", k, n, want))
		}
	}
	for k := range got {
		if must[k] == 0 && !may[k] {
			probs = append(probs, "unexpected "+k)
		}
	}
	sort.Strings(probs)
	if len(probs) > 0 {
		return strings.Join(probs, "; ")
	}
	return "unexpected or missing report: overlapping once-per-file groups cannot be attributed"
}

func init() {
	replayers["prog"] = func(data json.RawMessage) string {
		var c progCase
		if err := json.Unmarshal(data, &c); err != nil {
			return "bad replay: " + err.Error()
		}
		return runProgCase(c)
	}
}

// generatorBug aborts the run: the program the harness produced does not
// type-check. That is an infrastructure failure (exit 2), never a verdict.
func generatorBug(t fataler, id string, p *proggen.Prog, errs []string) {
	var b strings.Builder
	for k, v := range p.Sources() {
		fmt.Fprintf(&b, "--- %s\n%s", k, v)
	}
	t.Fatalf("GENERATOR-BUG %s: generated program does not type-check: %v\n%s", id, errs, b.String())
}

// sampleProg renders a compact sample for evidence.
func sampleProg(p *proggen.Prog, extra map[string]interface{}) map[string]interface{} {
	m := map[string]interface{}{"sources": p.Sources()}
	for k, v := range extra {
		m[k] = v
	}
	return m
}

func wrapsLabel(ws []proggen.WrapKind) string {
	if len(ws) == 0 {
		return "none"
	}
	var s []string
	for _, w := range ws {
		s = append(s, proggen.WrapNames[w])
	}
	return strings.Join(s, ">")
}

var _ = ev.Eval

// wrapsShort: nesting depth and innermost wrapper.
func wrapsShort(ws []proggen.WrapKind) string {
	if len(ws) == 0 {
		return "depth0"
	}
	return fmt.Sprintf("depth%d innermost=%s", len(ws), proggen.WrapNames[ws[len(ws)-1]])
}

// containerOf names where a site sits, distinguishing listed constructors.
func containerOf(si proggen.SiteInfo, t *proggen.TypeDecl) string {
	c := si.Ctx.Container()
	if t != nil && si.Ctx.Func != nil && t.IsCtor(si.Ctx.Func.Name) {
		if si.Ctx.Func.Pkg == t.Pkg {
			return "constructor"
		}
		return "foreign-func-named-like-constructor"
	}
	if si.Ctx.File.IsTest() {
		c += "(testfile)"
	}
	return c
}

// firstFile returns one (the smallest) file of a program for samples.
func firstFile(src map[string]string) map[string]string {
	best := ""
	for k, v := range src {
		if best == "" || len(v) < len(src[best]) {
			best = k
		}
	}
	return map[string]string{best: src[best]}
}
