package props

import (
	"encoding/json"
	"fmt"
	"go/ast"
	"go/types"
	"regexp"
	"sort"
	"strings"
	"testing"

	"golang.org/x/tools/go/packages"
	"pgregory.net/rapid"

	"verif/harness/engine"
	"verif/harness/ev"
	"verif/harness/proggen"
)

// ---- signature grammar ---------------------------------------------------------

// tyAlt: a type with spellings that denote the identical type and minimally
// different types. "ip." stands for the interface package's qualifier.
type tyAlt struct {
	base string
	same []string
	diff []string
	tag  string // shape class
}

var c05Types = []tyAlt{
	{"int", nil, []string{"int64", "string"}, "basic"},
	{"string", nil, []string{"[]byte"}, "basic"},
	{"bool", nil, []string{"int"}, "basic"},
	{"error", nil, []string{"any"}, "basic"},
	{"byte", []string{"uint8"}, []string{"int8"}, "predeclared-alias"},
	{"rune", []string{"int32"}, []string{"int"}, "predeclared-alias"},
	{"any", []string{"interface{}"}, []string{"error"}, "predeclared-alias"},
	{"[]byte", []string{"[]uint8"}, []string{"[]int8"}, "predeclared-alias"},
	{"aux.N", []string{"aux.A"}, []string{"aux.S", "int"}, "declared-alias"},
	{"[]aux.N", []string{"[]aux.A"}, []string{"[]int"}, "declared-alias"},
	{"map[string]aux.N", []string{"map[string]aux.A"}, []string{"map[string]int"}, "declared-alias"},
	{"*aux.S", []string{"aux.AP"}, []string{"**aux.S", "aux.S"}, "declared-alias"},
	{"aux.S", nil, []string{"*aux.S", "aux.N"}, "named"},
	{"ip.Tok", nil, []string{"*ip.Tok", "int"}, "named"},
	{"**aux.S", []string{"*aux.AP"}, []string{"*aux.S", "***aux.S"}, "pointer-depth"},
	{"***int", nil, []string{"**int", "****int"}, "pointer-depth"},
	{"**int", nil, []string{"*int", "***int"}, "pointer-depth"},
	{"*int", nil, []string{"int", "**int"}, "pointer-depth"},
	{"*[]int", nil, []string{"[]int", "**[]int"}, "pointer-depth"},
	{"[]int", nil, []string{"[]int64", "[3]int"}, "composite"},
	{"[]*int", nil, []string{"[]**int", "[]int"}, "composite"},
	{"[3]int", nil, []string{"[4]int", "[]int"}, "composite"},
	{"map[string]int", nil, []string{"map[string]int64", "map[int]int"}, "composite"},
	{"func(int) string", []string{"func(x int) string", "func(int) (s string)"}, []string{"func(int)", "func(int) int"}, "func"},
	{"func(...int)", nil, []string{"func([]int)"}, "func"},
	{"chan int", nil, []string{"<-chan int", "chan<- int"}, "chan"},
	{"<-chan int", nil, []string{"chan int", "chan<- int"}, "chan"},
	{"chan<- *aux.S", nil, []string{"chan<- aux.S", "chan *aux.S"}, "chan"},
	{"struct{ X int }", nil, []string{"struct{ Y int }"}, "composite"},
}

type c05Sig struct {
	Params   []string `json:"params"`
	Variadic bool     `json:"variadic"`
	Results  []string `json:"results"`
}

func (s c05Sig) render(q string, names bool) string {
	var ps []string
	for i, p := range s.Params {
		t := strings.ReplaceAll(p, "ip.", q)
		if s.Variadic && i == len(s.Params)-1 {
			t = "..." + t
		}
		if names {
			t = fmt.Sprintf("p%d %s", i, t)
		}
		ps = append(ps, t)
	}
	out := "(" + strings.Join(ps, ", ") + ")"
	var rs []string
	for _, r := range s.Results {
		rs = append(rs, strings.ReplaceAll(r, "ip.", q))
	}
	switch len(rs) {
	case 0:
	case 1:
		if strings.HasPrefix(rs[0], "func") {
			out += " (" + rs[0] + ")"
		} else {
			out += " " + rs[0]
		}
	default:
		out += " (" + strings.Join(rs, ", ") + ")"
	}
	return out
}

type c05Method struct {
	Name string
	Sig  c05Sig
	tags map[string]bool
}

// ---- program -------------------------------------------------------------------

type c05Case struct {
	Pkgs    []string          `json:"pkgs"`
	Sources map[string]string `json:"sources"`
}

var implMsgRe = regexp.MustCompile(`\[(IMPL0[123])\] (?:package "([^"]*)" referenced in @implements annotation on type "([^"]*)"|interface "([^"]*)" not found for type "([^"]*)"|type "([^"]*)" does not implement interface "([^"]*)")`)
var annotRe = regexp.MustCompile(`^// @implements (&?)(?:(\w+)\.)?(\w+)`)

// c05Oracle computes the expected IMPL verdicts from go/types on the loaded
// program. Returns expected keys, unspecified keys (not judged) and classes.
type c05Verdict struct {
	Key     string   // "T|annotation text"
	Code    string   // "", IMPL01, IMPL02, IMPL03
	Missing []string // for IMPL03
	Open    string   // non-empty: not judged, with reason
	Class   string
}

func c05Expected(ld *engine.Loaded, implPath string, sources map[string]string, implDir string) []c05Verdict {
	pkg := ld.Plain[implPath]
	var out []c05Verdict
	for _, sf := range pkg.Syntax {
		fn := ld.Fset.Position(sf.Pos()).Filename
		base := fn[strings.LastIndex(fn, "/")+1:]
		out = append(out, c05ExpectedFile(pkg, sf, sources[implDir+"/"+base])...)
	}
	return out
}

func c05ExpectedFile(pkg *packages.Package, sf *ast.File, src string) []c05Verdict {
	var out []c05Verdict
	lines := strings.Split(src, "\n")
	// imports of this file
	type imp struct {
		alias string
		p     *types.Package
	}
	var imps []imp
	for _, is := range sf.Imports {
		path := strings.Trim(is.Path.Value, `"`)
		var tp *types.Package
		for _, ip := range pkg.Types.Imports() {
			if ip.Path() == path {
				tp = ip
			}
		}
		a := ""
		if is.Name != nil {
			a = is.Name.Name
		}
		imps = append(imps, imp{a, tp})
	}
	for i, l := range lines {
		m := annotRe.FindStringSubmatch(strings.TrimSpace(l))
		if m == nil {
			continue
		}
		// the type this doc line belongs to: next line starting with "type "
		tname := ""
		for j := i + 1; j < len(lines); j++ {
			if strings.HasPrefix(lines[j], "type ") {
				tname = strings.Fields(lines[j])[1]
				break
			}
			if !strings.HasPrefix(lines[j], "//") {
				break
			}
		}
		if tname == "" {
			continue
		}
		ptr, q, iname := m[1] == "&", m[2], m[3]
		v := c05Verdict{Key: tname + "|" + strings.TrimSpace(l)}
		// 1. qualifier
		var target *types.Package
		if q == "" {
			target = pkg.Types
		} else {
			for _, im := range imps {
				if im.p == nil {
					continue
				}
				switch {
				case im.alias == q && q != "_" && q != ".":
					target = im.p
				case im.alias == "" && im.p.Name() == q:
					target = im.p
				}
			}
			if target == nil {
				// the documented idiom for packages named by annotations only:
				// import _ "path" binds the package under its declared name
				n := 0
				for _, im := range imps {
					if im.p != nil && im.alias == "_" && im.p.Name() == q {
						target = im.p
						n++
					}
				}
				if n > 1 {
					target = nil
				}
			}
			if target == nil {
				// statement and implementation agree only when no import could
				// plausibly carry the name: shapes in between are left open
				for _, im := range imps {
					if im.p == nil {
						continue
					}
					last := im.p.Path()[strings.LastIndex(im.p.Path(), "/")+1:]
					if im.p.Name() == q || last == q || im.p.Path() == q {
						v.Open = "qualifier equals declared name / last path element of an import that is bound under another name"
					}
				}
				if v.Open == "" {
					v.Code = "IMPL01"
					v.Class = "qualifier not imported"
					if q == pkg.Types.Name() {
						v.Class = "qualifier is the current package's own name"
					}
				}
				out = append(out, v)
				continue
			}
		}
		// 2. interface
		obj := target.Scope().Lookup(iname)
		tn, _ := obj.(*types.TypeName)
		var iface *types.Interface
		if tn != nil {
			iface, _ = tn.Type().Underlying().(*types.Interface)
		}
		if iface == nil {
			v.Code = "IMPL02"
			v.Class = "interface missing"
			if tn != nil {
				v.Class = "name is not an interface"
			}
			out = append(out, v)
			continue
		}
		// 3. implementation by Go's method-set rules
		tobj, _ := pkg.Types.Scope().Lookup(tname).(*types.TypeName)
		if tobj == nil {
			continue
		}
		var x types.Type = tobj.Type()
		if ptr {
			x = types.NewPointer(x)
		}
		ms := types.NewMethodSet(x)
		for k := 0; k < iface.NumMethods(); k++ {
			im := iface.Method(k)
			sel := ms.Lookup(im.Pkg(), im.Name())
			if sel == nil || !types.Identical(sel.Type(), im.Type()) {
				v.Missing = append(v.Missing, im.Name())
			}
		}
		sort.Strings(v.Missing)
		if !types.Implements(x, iface) != (len(v.Missing) > 0) {
			v.Open = "go/types Implements and per-method comparison disagree"
		}
		if len(v.Missing) > 0 {
			v.Code = "IMPL03"
		}
		v.Class = "method-set comparison"
		out = append(out, v)
	}
	return out
}

func c05Check(c c05Case) (string, []c05Verdict) {
	prog := enginePkgs(c.Pkgs, c.Sources)
	ld, err := engine.Load(prog, engine.VirtualRoot, "go1.23")
	if err != nil {
		return "GENERATOR-BUG load: " + err.Error(), nil
	}
	if len(ld.TypeErrs) > 0 {
		return "GENERATOR-BUG type errors: " + strings.Join(ld.TypeErrs, "; "), nil
	}
	res := engine.Analyze(ld, engine.DefaultConfig(), engine.Options{Sequential: true})
	if len(res.Panics) > 0 {
		return "analyzer panicked: " + res.Panics[0], nil
	}
	implDir := c.Pkgs[len(c.Pkgs)-1]
	verdicts := c05Expected(ld, proggen.Module+"/"+implDir, c.Sources, implDir)
	// the test variant of the implementing package repeats the regular files' diagnostics
	why := c05CompareVerdicts(verdicts, engine.CollapseVariants(res.Diags))
	return why, verdicts
}

// c05CompareVerdicts matches the expected verdicts with the IMPL diagnostics.
func c05CompareVerdicts(verdicts []c05Verdict, diags []engine.Diag) string {
	// actual: (type, code, subject) from messages; subject = the qualifier
	// (IMPL01) or the interface as written in the annotation (IMPL02/03)
	type got struct {
		code    string
		subject string
		missing []string
		used    bool
	}
	actual := map[string][]*got{} // by type name
	for _, d := range diags {
		if !strings.HasPrefix(d.Code, "IMPL") {
			continue
		}
		m := implMsgRe.FindStringSubmatch(d.Message)
		if m == nil {
			return "unparsable IMPL message: " + firstLine(d.Message)
		}
		tname := m[3] + m[5] + m[6]
		g := &got{code: m[1], subject: m[2] + m[4] + m[7]}
		if m[1] == "IMPL03" {
			if i := strings.Index(d.Message, "missing methods:\n"); i >= 0 {
				for _, ml := range strings.Split(d.Message[i+len("missing methods:\n"):], "\n") {
					if !strings.HasPrefix(ml, "  ") || strings.HasPrefix(ml, "   ") {
						break
					}
					ml = strings.TrimSpace(ml)
					if j := strings.Index(ml, "("); j > 0 {
						g.missing = append(g.missing, ml[:j])
					}
				}
			}
			sort.Strings(g.missing)
		}
		actual[tname] = append(actual[tname], g)
	}
	// a type may carry several annotations: every judged verdict must find its
	// own diagnostic (same code, same subject, same missing list), every
	// diagnostic must belong to a verdict (or to an annotation left open)
	subjectOf := func(v c05Verdict) (qual, iface string) {
		m := annotRe.FindStringSubmatch(v.Key[strings.Index(v.Key, "|")+1:])
		if m == nil {
			return "", ""
		}
		if m[2] != "" {
			return m[2], m[2] + "." + m[3]
		}
		return "", m[3]
	}
	var probs []string
	openSubjects := map[string][]string{}
	for _, v := range verdicts {
		tname := v.Key[:strings.Index(v.Key, "|")]
		if v.Open != "" {
			q, i := subjectOf(v)
			openSubjects[tname] = append(openSubjects[tname], q, i)
		}
	}
	for _, v := range verdicts {
		if v.Open != "" || v.Code == "" {
			continue
		}
		tname := v.Key[:strings.Index(v.Key, "|")]
		q, i := subjectOf(v)
		want := i
		if v.Code == "IMPL01" {
			want = q
		}
		var hit, near *got
		for _, g := range actual[tname] {
			if g.used || g.subject != want && !(v.Code != "IMPL01" && g.subject == q) {
				continue
			}
			if g.code == v.Code && (v.Code != "IMPL03" || strings.Join(g.missing, ",") == strings.Join(v.Missing, ",")) && g.subject == want {
				hit = g
				break
			}
			if near == nil {
				near = g
			}
		}
		switch {
		case hit != nil:
			hit.used = true
		case near != nil && near.code != v.Code:
			near.used = true
			probs = append(probs, fmt.Sprintf("%s: expected %s, tool reports %s", v.Key, v.Code, near.code))
		case near != nil:
			near.used = true
			probs = append(probs, fmt.Sprintf("%s: Go considers %v missing or of wrong type, tool lists %v", v.Key, v.Missing, near.missing))
		default:
			probs = append(probs, fmt.Sprintf("%s: expected %s %v, tool is silent", v.Key, v.Code, v.Missing))
		}
	}
	for _, v := range verdicts {
		if v.Open != "" || v.Code != "" {
			continue
		}
		// Go accepts this annotation: no diagnostic may be left that names it
		// (unless another annotation of the type with the same subject explains it)
		tname := v.Key[:strings.Index(v.Key, "|")]
		_, i := subjectOf(v)
		for _, g := range actual[tname] {
			if !g.used && g.subject == i {
				open := false
				for _, o := range openSubjects[tname] {
					open = open || o == g.subject
				}
				if !open {
					g.used = true
					probs = append(probs, fmt.Sprintf("%s: Go accepts it, tool reports %s %v", v.Key, g.code, g.missing))
				}
			}
		}
	}
	var tnames []string
	for tname := range actual {
		tnames = append(tnames, tname)
	}
	sort.Strings(tnames)
	for _, tname := range tnames {
		for _, g := range actual[tname] {
			if g.used {
				continue
			}
			open := false
			for _, o := range openSubjects[tname] {
				open = open || o == g.subject
			}
			if !open {
				probs = append(probs, fmt.Sprintf("%s: tool reports %s %v for %q, no annotation of the type explains it", tname, g.code, g.missing, g.subject))
			}
		}
	}
	sort.Strings(probs)
	return strings.Join(probs, "; ")
}

func init() {
	replayers["c05"] = func(data json.RawMessage) string {
		var c c05Case
		if err := json.Unmarshal(data, &c); err != nil {
			return "bad replay: " + err.Error()
		}
		why, _ := c05Check(c)
		if strings.HasPrefix(why, "GENERATOR-BUG") {
			return ""
		}
		return why
	}
}

// ---- generator -----------------------------------------------------------------

type c05Gen struct {
	rt *rapid.T
}

func (g *c05Gen) pick(label string, n int) int { return rapid.IntRange(0, n-1).Draw(g.rt, label) }
func (g *c05Gen) chance(label string, pct int) bool {
	return rapid.IntRange(0, 99).Draw(g.rt, label) < pct
}

func (g *c05Gen) ty() tyAlt { return c05Types[g.pick("type", len(c05Types))] }

func (g *c05Gen) sig() (c05Sig, []tyAlt, []tyAlt) {
	var s c05Sig
	var pa, ra []tyAlt
	for i, n := 0, rapid.IntRange(0, 3).Draw(g.rt, "nparams"); i < n; i++ {
		t := g.ty()
		pa = append(pa, t)
		s.Params = append(s.Params, t.base)
	}
	if len(s.Params) > 0 && g.chance("variadic", 20) {
		s.Variadic = true
	}
	for i, n := 0, rapid.IntRange(0, 2).Draw(g.rt, "nresults"); i < n; i++ {
		t := g.ty()
		ra = append(ra, t)
		s.Results = append(s.Results, t.base)
	}
	return s, pa, ra
}

// respell returns an identical signature in another spelling.
func (g *c05Gen) respell(s c05Sig, pa, ra []tyAlt) (c05Sig, []string) {
	out := c05Sig{Variadic: s.Variadic}
	var tags []string
	for i, t := range pa {
		v := s.Params[i]
		if len(t.same) > 0 && g.chance("respellParam", 60) {
			v = t.same[g.pick("sameIdx", len(t.same))]
			tags = append(tags, "identical via "+t.tag)
		}
		out.Params = append(out.Params, v)
	}
	for i, t := range ra {
		v := s.Results[i]
		if len(t.same) > 0 && g.chance("respellResult", 60) {
			v = t.same[g.pick("sameIdxR", len(t.same))]
			tags = append(tags, "identical via "+t.tag)
		}
		out.Results = append(out.Results, v)
	}
	return out, tags
}

// perturb returns a minimally different signature.
func (g *c05Gen) perturb(s c05Sig, pa, ra []tyAlt) (c05Sig, string) {
	out := c05Sig{Params: append([]string{}, s.Params...), Results: append([]string{}, s.Results...), Variadic: s.Variadic}
	n := len(pa) + len(ra)
	switch k := g.pick("perturbKind", 10); {
	case k < 6 && n > 0:
		i := g.pick("perturbIdx", n)
		if i < len(pa) {
			out.Params[i] = pa[i].diff[g.pick("diffIdx", len(pa[i].diff))]
			return out, "different " + pa[i].tag
		}
		j := i - len(pa)
		out.Results[j] = ra[j].diff[g.pick("diffIdxR", len(ra[j].diff))]
		return out, "different " + ra[j].tag
	case k < 8 && len(out.Params) > 0:
		// variadic <-> slice
		last := len(out.Params) - 1
		if out.Variadic {
			out.Variadic = false
			out.Params[last] = "[]" + out.Params[last]
		} else if strings.HasPrefix(out.Params[last], "[]") {
			out.Variadic = true
			out.Params[last] = strings.TrimPrefix(out.Params[last], "[]")
		} else {
			out.Variadic = true
		}
		return out, "variadic vs slice"
	case k < 9:
		out.Results = append(out.Results, "error")
		return out, "result count"
	default:
		out.Params = append(out.Params, "int")
		if out.Variadic {
			out.Variadic = false
		}
		return out, "parameter count"
	}
}

type pkgSpec struct{ dir, name string }

type c05Iface struct {
	Name    string
	Methods []c05Method
	alts    map[string][2][]tyAlt
	Embeds  []string
	Local   bool // declared in the implementing package
}

func c05Program(rt *rapid.T) (c05Case, map[string]int) {
	g := &c05Gen{rt: rt}
	classes := map[string]int{}
	ipSpec := rapid.SampledFrom([]pkgSpec{{"ip", "ip"}, {"ifc-v2", "ifc"}, {"x/ip", "ip"}, {"api", "contracts"}}).Draw(rt, "ipkg")
	var ifaces []*c05Iface
	mseq := 0
	nI := rapid.IntRange(1, 3).Draw(rt, "nifaces")
	for i := 0; i < nI; i++ {
		it := &c05Iface{Name: fmt.Sprintf("I%d", i), alts: map[string][2][]tyAlt{}}
		if i > 0 && g.chance("localIface", 25) {
			it.Local = true
		}
		for k, nm := 0, rapid.IntRange(1, 3).Draw(rt, "nmethods"); k < nm; k++ {
			mseq++
			s, pa, ra := g.sig()
			if it.Local {
				// a local interface cannot mention the interface package's own named type through "ip."
			}
			m := c05Method{Name: fmt.Sprintf("M%d", mseq), Sig: s}
			it.Methods = append(it.Methods, m)
			it.alts[m.Name] = [2][]tyAlt{pa, ra}
		}
		if i > 0 && !it.Local && !ifaces[0].Local && g.chance("embedIface", 30) {
			it.Embeds = append(it.Embeds, ifaces[0].Name)
		}
		ifaces = append(ifaces, it)
	}
	allMethods := func(it *c05Iface) []c05Method {
		ms := append([]c05Method{}, it.Methods...)
		for _, e := range it.Embeds {
			for _, o := range ifaces {
				if o.Name == e {
					ms = append(ms, o.Methods...)
				}
			}
		}
		return ms
	}
	altsOf := func(name string) [2][]tyAlt {
		for _, it := range ifaces {
			if a, ok := it.alts[name]; ok {
				return a
			}
		}
		return [2][]tyAlt{}
	}
	// aux package
	aux := "package aux\n\ntype N int\n\ntype S struct{ F int }\n\ntype A = N\n\ntype AP = *S\n"
	// interface package
	var ipb strings.Builder
	fmt.Fprintf(&ipb, "package %s\n\nimport \"vf.test/m/aux\"\n\nvar _ aux.N\n\ntype Tok int\n\ntype NotIface struct{}\n\n", ipSpec.name)
	// an interface sealed by an unexported method, and bases that provide it
	ipb.WriteString("type Sealed interface {\n\tOpen()\n\tsealed()\n}\n\ntype Base struct{}\n\nfunc (Base) sealed() {}\n\ntype PBase struct{}\n\nfunc (*PBase) sealed() {}\n\n")
	for _, it := range ifaces {
		if it.Local {
			continue
		}
		fmt.Fprintf(&ipb, "type %s interface {\n", it.Name)
		for _, e := range it.Embeds {
			fmt.Fprintf(&ipb, "\t%s\n", e)
		}
		for _, m := range it.Methods {
			fmt.Fprintf(&ipb, "\t%s%s\n", m.Name, m.Sig.render("", g.chance("ifaceParamNames", 30)))
		}
		ipb.WriteString("}\n\n")
	}
	// interfaces also reachable under an alias name (type IAl = I; type LitAl = interface{...})
	aliased := map[string]bool{}
	for _, it := range ifaces {
		if !it.Local && g.chance("ifaceAlias", 30) {
			fmt.Fprintf(&ipb, "type %sAl = %s\n\n", it.Name, it.Name)
			aliased[it.Name] = true
			classes["interface declared through a type alias"]++
		}
	}
	ipb.WriteString("type LitAl = interface{ LitM() int }\n\n")
	// implementing package
	importAlias := ""
	switch g.pick("importForm", 4) {
	case 0:
		importAlias = "pi"
	case 1:
		importAlias = "quirk"
	}
	q := ipSpec.name + "."
	if importAlias != "" {
		q = importAlias + "."
	}
	var ib strings.Builder
	ib.WriteString("package impl\n\nimport (\n\t\"vf.test/m/aux\"\n")
	if importAlias != "" {
		fmt.Fprintf(&ib, "\t%s \"vf.test/m/%s\"\n", importAlias, ipSpec.dir)
	} else {
		fmt.Fprintf(&ib, "\t\"vf.test/m/%s\"\n", ipSpec.dir)
	}
	fmt.Fprintf(&ib, ")\n\nvar _ aux.N\n\nvar _ %sTok\n\n", q)
	for _, it := range ifaces {
		if !it.Local {
			continue
		}
		fmt.Fprintf(&ib, "type %s interface {\n", it.Name)
		for _, m := range it.Methods {
			fmt.Fprintf(&ib, "\t%s%s\n", m.Name, m.Sig.render(q, false))
		}
		ib.WriteString("}\n\n")
	}
	nT := rapid.IntRange(1, 4).Draw(rt, "ntypes")
	for ti := 0; ti < nT; ti++ {
		it := ifaces[g.pick("targetIface", len(ifaces))]
		tname := fmt.Sprintf("T%d", ti)
		// annotation
		ptr := g.chance("amp", 50)
		qual := strings.TrimSuffix(q, ".")
		iname := it.Name
		if it.Local {
			qual = ""
		}
		switch k := g.pick("annotShape", 20); {
		case k == 0:
			qual = "nosuchpkg"
		case k == 1:
			qual = "impl"
		case k == 2 && !it.Local:
			qual = ipSpec.name // declared name (may be shadowed by an alias)
		case k == 3 && !it.Local:
			qual = ipSpec.dir[strings.LastIndex(ipSpec.dir, "/")+1:]
			if strings.ContainsAny(qual, "-.") {
				qual = strings.TrimSuffix(q, ".")
			}
		case k == 4:
			iname = "Missing"
		case k == 5 && !it.Local:
			iname = "NotIface"
		case k == 6 && !it.Local:
			iname = "Tok"
		case k >= 7 && k <= 9 && aliased[it.Name]:
			iname = it.Name + "Al" // the alias denotes the same interface
		}
		annot := "// @implements "
		if ptr {
			annot += "&"
		}
		if qual != "" {
			annot += qual + "."
		}
		annot += iname
		if g.chance("trailingText", 15) {
			annot += " as required by the scheduler"
		}
		// further @implements lines on the same declaration (before or after the
		// main one): the same interface in the other & mode, another interface,
		// an unknown qualifier, a missing interface
		if g.chance("moreAnnotations", 40) {
			for k, n := 0, 1+g.pick("nMore", 2); k < n; k++ {
				it2, ptr2 := it, !ptr
				if !g.chance("sameIfaceOtherMode", 40) {
					it2, ptr2 = ifaces[g.pick("moreIface", len(ifaces))], g.chance("moreAmp", 50)
				}
				q2 := strings.TrimSuffix(q, ".")
				if it2.Local {
					q2 = ""
				}
				n2 := it2.Name
				switch g.pick("moreShape", 10) {
				case 0:
					q2 = "nosuchpkg"
				case 1:
					n2 = "Missing"
				}
				line := "// @implements "
				if ptr2 {
					line += "&"
				}
				if q2 != "" {
					line += q2 + "."
				}
				line += n2
				if g.chance("moreFirst", 50) {
					annot = line + "\n" + annot
				} else {
					annot = annot + "\n" + line
				}
				classes["second / third @implements line on one declaration"]++
			}
		}
		// methods
		var embeds, decls []string
		embSeq := 0
		for _, m := range allMethods(it) {
			a := altsOf(m.Name)
			recvPtr := g.chance("recvPtr", 50)
			recv := tname
			how := g.pick("provide", 100)
			sig := m.Sig
			label := "identical"
			switch {
			case how >= 90:
				classes["method absent"]++
				continue
			case how < 35:
				var tags []string
				sig, tags = g.respell(m.Sig, a[0], a[1])
				for _, tg := range tags {
					classes[tg]++
				}
			case how < 60:
				var why string
				sig, why = g.perturb(m.Sig, a[0], a[1])
				label = why
				classes["method "+why]++
			case how < 80:
				// promoted through an embedded struct (value or pointer)
				embSeq++
				en := fmt.Sprintf("E%d_%d", ti, embSeq)
				ep := g.chance("embedPtr", 50)
				if ep {
					embeds = append(embeds, "*"+en)
				} else {
					embeds = append(embeds, en)
				}
				r := en
				if recvPtr {
					r = "*" + en
				}
				decls = append(decls, fmt.Sprintf("type %s struct{}\n\nfunc (e %s) %s%s {%s}\n", en, r, m.Name, sig.render(q, true), c05Body(sig)))
				classes[fmt.Sprintf("promoted via embedded %s, receiver %s", map[bool]string{true: "*E", false: "E"}[ep], map[bool]string{true: "*E", false: "E"}[recvPtr])]++
				continue
			default:
				// promoted through an embedded interface value
				if it.Local {
					embeds = append(embeds, it.Name)
				} else {
					embeds = append(embeds, q+it.Name)
				}
				classes["promoted via embedded interface"]++
				goto done
			}
			_ = label
			if recvPtr {
				recv = "*" + tname
				classes["pointer receiver"]++
			} else {
				classes["value receiver"]++
			}
			decls = append(decls, fmt.Sprintf("func (t %s) %s%s {%s}\n", recv, m.Name, sig.render(q, true), c05Body(sig)))
		}
	done:
		// de-duplicate embedded names
		seen := map[string]bool{}
		var emb []string
		for _, e := range embeds {
			if !seen[strings.TrimPrefix(e, "*")] {
				seen[strings.TrimPrefix(e, "*")] = true
				emb = append(emb, e)
			}
		}
		fmt.Fprintf(&ib, "%s\ntype %s struct {\n", annot, tname)
		for _, e := range emb {
			fmt.Fprintf(&ib, "\t%s\n", e)
		}
		ib.WriteString("}\n\n")
		for _, d := range decls {
			ib.WriteString(d + "\n")
		}
	}
	// annotated defined types that are not structs: an interface type (its method
	// set is its own methods, a pointer to it has none), a defined pointer type (no methods at all)
	if !ifaces[0].Local && g.chance("ifaceTyped", 30) {
		amp := ""
		if g.chance("ifaceTypedAmp", 35) {
			amp = "&"
		}
		it := ifaces[0]
		fmt.Fprintf(&ib, "// @implements %s%s%s\n", amp, q, it.Name)
		switch g.pick("ifaceTypedShape", 4) {
		case 0:
			fmt.Fprintf(&ib, "type TIfc interface{ %s%s }\n\n", q, it.Name)
			classes["annotated interface type embedding the interface"]++
		case 1, 2:
			ms := allMethods(it)
			drop := -1
			if g.chance("ifaceTypedDrop", 50) {
				drop = g.pick("ifaceTypedDropIdx", len(ms))
			}
			ib.WriteString("type TIfc interface {\n")
			for k, m := range ms {
				if k != drop {
					fmt.Fprintf(&ib, "\t%s%s\n", m.Name, m.Sig.render(q, false))
				}
			}
			ib.WriteString("\tExtraIfcM()\n}\n\n")
			classes["annotated interface type declaring the methods itself"]++
		default:
			ib.WriteString("type TPtrDef *T0\n\n")
			classes["annotated defined pointer type"]++
		}
	}
	// a type aimed at the alias of an interface literal
	if g.chance("litAlias", 30) {
		amp := ""
		if g.chance("litAmp", 50) {
			amp = "&"
		}
		fmt.Fprintf(&ib, "// @implements %s%sLitAl\ntype TLit struct{}\n\n", amp, q)
		switch g.pick("litProvide", 3) {
		case 0:
			ib.WriteString("func (t TLit) LitM() int { return 0 }\n\n")
		case 1:
			ib.WriteString("func (t *TLit) LitM() int { return 0 }\n\n")
		}
		classes["alias of an interface literal"]++
	}
	// types aiming at the sealed interface
	for k, n := 0, rapid.IntRange(0, 2).Draw(rt, "nsealed"); k < n; k++ {
		tname := fmt.Sprintf("S%d", k)
		amp := ""
		if g.chance("sealedAmp", 50) {
			amp = "&"
		}
		emb := []string{q + "Base", "*" + q + "Base", q + "PBase", "*" + q + "PBase", ""}[g.pick("sealedEmbed", 5)]
		fmt.Fprintf(&ib, "// @implements %s%sSealed\ntype %s struct {\n", amp, q, tname)
		if emb != "" {
			fmt.Fprintf(&ib, "\t%s\n", emb)
		}
		ib.WriteString("}\n\n")
		if g.chance("sealedOpen", 70) {
			r := tname
			if g.chance("sealedOpenPtr", 50) {
				r = "*" + tname
			}
			fmt.Fprintf(&ib, "func (s %s) Open() {}\n\n", r)
		}
		if emb == "" && g.chance("ownSealed", 60) {
			// a method of the same name declared in THIS package does not satisfy the foreign unexported method
			fmt.Fprintf(&ib, "func (s %s) sealed() {}\n\n", tname)
			classes["own method named like a foreign unexported interface method"]++
		}
		classes["sealed interface via "+map[bool]string{true: "embedding " + strings.ReplaceAll(emb, q, "ip."), false: "nothing"}[emb != ""]]++
	}
	c := c05Case{Pkgs: []string{"aux", ipSpec.dir, "impl"}, Sources: map[string]string{"aux/aux.go": aux, ipSpec.dir + "/ip.go": ipb.String(), "impl/impl.go": ib.String()}}
	// further files of the implementing package with different imports: a
	// qualifier is bound per file
	qn := strings.TrimSuffix(q, ".")
	if g.chance("otherFiles", 50) {
		if g.chance("earlierFileBindsNameElsewhere", 60) {
			c.Sources["impl/a_first.go"] = fmt.Sprintf("package impl\n\nimport %s \"vf.test/m/aux\"\n\nvar _ %s.N\n\n// @implements %s.I0\ntype A0 struct{}\n", qn, qn, qn)
			classes["earlier file binds the qualifier to another package"]++
		}
		c.Sources["impl/z_last.go"] = fmt.Sprintf("package impl\n\n// @implements %s.I0\ntype Z0 struct{}\n\n// @implements &%s.Sealed\ntype Z1 struct{}\n", qn, qn)
		classes["file without the import uses the qualifier"]++
	}
	// a file that imports the interface package for its annotations only: import _ "path"
	// (the idiom the documentation recommends); the qualifier is the declared name
	if g.chance("blankImportFile", 35) {
		var fb strings.Builder
		fmt.Fprintf(&fb, "package impl\n\nimport _ \"vf.test/m/%s\"\n\n", ipSpec.dir)
		fmt.Fprintf(&fb, "// @implements %s.LitAl\ntype B0 struct{}\n\nfunc (B0) LitM() int { return 0 }\n\n", ipSpec.name)
		fmt.Fprintf(&fb, "// @implements &%s.I0\ntype B1 struct{}\n\n", ipSpec.name)
		fmt.Fprintf(&fb, "// @implements %s.Missing\ntype B2 struct{}\n\n", ipSpec.name)
		fmt.Fprintf(&fb, "// @implements %s.Sealed\ntype B3 struct{}\n\nfunc (B3) Open() {}\n", ipSpec.name)
		c.Sources["impl/m_blank.go"] = fb.String()
		classes["file binding the interface package by a blank import"]++
	}
	// an in-package test file (not analysed) that imports the interface package:
	// its import binds nothing in the other files
	if g.chance("testFileImports", 30) {
		imp := fmt.Sprintf("import _ \"vf.test/m/%s\"\n", ipSpec.dir)
		if g.chance("testFileNamedImport", 50) {
			imp = fmt.Sprintf("import %s \"vf.test/m/%s\"\n\nvar _ %s.Tok\n", ipSpec.name, ipSpec.dir, ipSpec.name)
		}
		c.Sources["impl/impl_test.go"] = "package impl\n\n" + imp
		classes["in-package test file imports the interface package"]++
	}
	if ipSpec.name != ipSpec.dir[strings.LastIndex(ipSpec.dir, "/")+1:] {
		classes["interface package name differs from its directory"]++
	}
	if importAlias != "" {
		classes["interface package imported under alias"]++
	}
	return c, classes
}

func c05Body(s c05Sig) string {
	if len(s.Results) == 0 {
		return ""
	}
	return " panic(0) "
}

func TestC05(t *testing.T) {
	const id = "C05"
	checkWitnesses(t, id)
	checkRegressions(t, id)
	ev.Rule(id, "rapid-generated three-package programs: an interface package (declared name equal to / different from its directory, imported plainly or under an alias), a helper package with named types and aliases, and an implementing package with 1-4 annotated struct types. Interfaces have 1-3 methods (+ embedded interfaces, same-package interfaces) with signatures from a grammar of 29 types (basic, predeclared aliases byte/uint8 rune/int32 any/interface{}, declared aliases, named types of both packages, pointers of depth 1-3, slices, arrays, maps, funcs, chans with direction, structs) and variadics; each interface method is absent / provided with an identical signature in another spelling / provided with a minimally different signature / promoted through an embedded E or *E / promoted through an embedded interface; value or pointer receivers; annotation with or without &, qualifier = alias, declared name, last path element, current package's own name, unknown name; interface name present / missing / naming a non-interface. oracle = go/types on the same program: qualifier binding, scope lookup + Underlying interface, method sets + types.Identical per method (cross-checked with types.Implements); IMPL01/02/03 and the exact list of missing methods must agree. non-trivial = program with >=1 annotation whose verdict depends on a signature comparison or on receiver kind / embedding; distinct by source hash")
	rapid.Check(t, func(rt *rapid.T) {
		c, classes := c05Program(rt)
		ev.Eval(id)
		why, verdicts := c05Check(c)
		if strings.HasPrefix(why, "GENERATOR-BUG") {
			rt.Fatalf("%s\n%s", why, c.Sources["impl/impl.go"])
		}
		excluded := false
		for k := range classes {
			if strings.Contains(k, "pointer-depth") && shapeExcluded("c05-pointer-depth") ||
				strings.Contains(k, "alias") && strings.HasPrefix(k, "identical via") && shapeExcluded("c05-alias-spelling") ||
				strings.Contains(k, "embedded *E") && shapeExcluded("c05-embedded-pointer") {
				excluded = true
			}
		}
		if excluded {
			ev.Class(id, "excluded: shape of a recorded finding")
			return
		}
		if why != "" {
			sz := len(c.Sources["impl/impl.go"]) + len(c.Sources[c.Pkgs[1]+"/ip.go"]) + len(c.Sources["impl/a_first.go"]) + len(c.Sources["impl/z_last.go"])
			violation(rt, id, "c05", "c05", sz, c, "@implements verdict differs from Go's type checker: %s", why)
		}
		nt := false
		for _, v := range verdicts {
			cls := v.Class
			if v.Open != "" {
				cls = "unspecified: " + v.Open
			}
			code := v.Code
			if code == "" {
				code = "ok"
			}
			ev.Class(id, "verdict "+code+" ("+cls+")")
			if v.Class == "method-set comparison" {
				nt = true
			}
		}
		for k, n := range classes {
			ev.ClassN(id, "shape: "+k, int64(n))
		}
		if nt {
			ev.NonTrivial(id, ev.Hash(fmt.Sprint(c.Sources)))
		}
		if ev.SampleCount(id) < 3 && nt && len(c.Sources["impl/impl.go"]) < 1500 {
			var vs []string
			for _, v := range verdicts {
				vs = append(vs, fmt.Sprintf("%s => %s %v", v.Key, v.Code, v.Missing))
			}
			ev.Sample(id, map[string]interface{}{"sources": c.Sources, "go_types_verdicts": vs})
		}
	})
}
