package props

import (
	"fmt"
	"strings"
	"testing"

	"pgregory.net/rapid"

	"verif/harness/engine"
	"verif/harness/ev"
	"verif/harness/proggen"
)

// TestC12: verdicts do not depend on source layout.
func TestC12(t *testing.T) {
	const id = "C12"
	checkWitnesses(t, id)
	checkRegressions(t, id)
	ev.Rule(id, "rapid-generated multi-package programs (all annotation kinds mixed, every site tagged; 40% carry 1-4 inline @ignore comments trailing the first / last line of declarations and statements; 30% of the chains without a file move carry a file-level @ignore header whose attachment to the package clause is reshaped) and chains of 1-3 transformations from: permute top-level declarations of a file, move a declaration to another (possibly new, possibly first-sorting) file of the package, rename a file so that it sorts first / last, insert blank lines / ordinary comments, go/format, consistently rename parameters / receivers / locals (closure parameters deliberately shadow the receiver's name in the base). oracle = metamorphic: {(site tag, code)} equal before and after, for TONL01/PKGO01 {(using package, type)}; baseline from the real tool. non-trivial = chain that reorders declarations of a file holding a function and a package-level declaration with a site, moves a declaration to another file, or renames a shadowing variable - and the base has >=1 diagnostic; distinct by hash of (base, transformed)")
	cfg := engine.DefaultConfig()
	rapid.Check(t, func(rt *rapid.T) {
		opts := proggen.GenOpts{Focus: "all", MinPkgs: 1, MaxPkgs: 3, TestFiles: true, XTest: true, Aliases: true, Rich: true}
		if rapid.IntRange(0, 9).Draw(rt, "sameNameBias") < 3 {
			// per-file facts (which package an import name denotes) must not leak between files
			opts.SameName, opts.MinPkgs = true, 3
		}
		p := proggen.Gen(rt, opts)
		n := rapid.IntRange(1, 3).Draw(rt, "chainLen")
		kinds := make([]int, n)
		moves := false
		for i := range kinds {
			kinds[i] = rapid.IntRange(0, 5).Draw(rt, "transform")
			moves = moves || kinds[i] == 1
		}
		// a file-level @ignore header (only when no declaration changes file: that
		// would move it into or out of the header's scope)
		var headFile *proggen.File
		headShapes := func(c string) [][]string {
			return [][]string{{c}, {c, ""}, {c, "", "// Package doc comment."}, {"// Copyright the authors.", c, ""}}
		}
		headComment := ""
		if !moves && rapid.IntRange(0, 9).Draw(rt, "fileHeader") < 3 {
			var fs []*proggen.File
			for _, pk := range p.Pkgs {
				fs = append(fs, pk.Files...)
			}
			headFile = fs[rapid.IntRange(0, len(fs)-1).Draw(rt, "headFile")]
			headComment = "// @ignore " + rapid.SampledFrom([]string{"ALL", "IMM", "CTOR01, IMM01", "TONL, PKGO", "IMM01", "CTOR", "PKGO01, TONL01, IMPL"}).Draw(rt, "headCodes")
			sh := headShapes(headComment)
			headFile.Head = sh[rapid.IntRange(0, len(sh)-1).Draw(rt, "headShapeA")]
			p.Render()
		}
		// inline @ignore comments trailing the first / last line of declarations and
		// statements: they travel with their node, so the verdicts must still not move
		if rapid.IntRange(0, 9).Draw(rt, "inlineIgnores") < 4 {
			var declNodes, all []proggen.NodeRef
			for _, n := range p.Nodes() {
				if _, one := n.Stmt.(*proggen.OneLiner); one {
					continue // gofmt spreads it over several lines: a trailing comment would change its line
				}
				all = append(all, n)
				if n.Stmt == nil {
					declNodes = append(declNodes, n)
				}
			}
			for k, nk := 0, rapid.IntRange(1, 4).Draw(rt, "nInline"); k < nk && len(all) > 0; k++ {
				pool := all
				if len(declNodes) > 0 && rapid.IntRange(0, 9).Draw(rt, "onDecl") < 7 {
					pool = declNodes
				}
				n := pool[rapid.IntRange(0, len(pool)-1).Draw(rt, "inlineNode")]
				comment := "// @ignore " + rapid.SampledFrom([]string{"ALL", "ALL", "IMM", "CTOR", "TONL", "PKGO", "IMPL", "CTOR01, CTOR03, TONL01", "PKGO01, IMPL03"}).Draw(rt, "inlineCodes")
				// gofmt rewrites a parenthesised single result `func F() (\n\tT,\n) {` into
				// `func F() T {`: what the header line holds changes, so such headers get no comment
				fd, isFunc := n.Decl.(*proggen.FuncDecl)
				reshaped := n.Stmt == nil && isFunc && len(fd.Results) > 0
				if n.Node.End > n.Node.Start && (reshaped || rapid.Bool().Draw(rt, "inlineLast")) {
					n.Node.TrailingLast = comment
				} else if !reshaped {
					n.Node.Trailing = comment
				}
			}
			p.Render()
			ev.Class(id, "program with inline @ignore comments on declarations / statements")
		}
		base := loadOrBug(rt, id, p, cfg)
		srcA := p.Sources()
		pkgsA := pkgDirs(p)
		var labels []string
		nt := false
		doFmt := false
		if headFile != nil {
			sh := headShapes(headComment)
			k := rapid.IntRange(0, len(sh)-1).Draw(rt, "headShapeB")
			if strings.Join(sh[k], "\n") != strings.Join(headFile.Head, "\n") {
				headFile.Head = sh[k]
				labels = append(labels, "reshape-file-header")
				ev.Class(id, "file-level @ignore header attached/detached/reshaped")
			}
		}
		for i := 0; i < n; i++ {
			var info proggen.TransformInfo
			switch kinds[i] {
			case 0:
				info = proggen.PermuteDecls(rt, p)
			case 1:
				info = proggen.MoveDecl(rt, p)
			case 2:
				info = proggen.InsertLayout(rt, p)
			case 3:
				info = proggen.RenameLocals(rt, p)
			case 4:
				doFmt = true
				info = proggen.TransformInfo{Label: "gofmt"}
			case 5:
				info = proggen.RenameFile(rt, p)
			}
			labels = append(labels, info.Label)
			if info.Reordered || info.Moved || info.Unshadowed {
				nt = true
			}
			ev.Class(id, "transform "+strings.SplitN(info.Label, "(", 2)[0])
			if info.Unshadowed {
				ev.Class(id, "renamed a variable shadowing the receiver")
			}
		}
		p.Render()
		if doFmt {
			if err := proggen.Gofmt(p); err != nil {
				rt.Fatalf("GENERATOR-BUG gofmt: %v", err)
			}
		}
		after := loadOrBug(rt, id, p, cfg)
		srcB := p.Sources()
		ev.Eval(id)
		c := metaCase{PkgsA: pkgsA, A: srcA, PkgsB: pkgDirs(p), B: srcB, ConfigA: cfg, ConfigB: cfg, Mode: "same", Note: strings.Join(labels, " + ")}
		if len(base.Panics)+len(after.Panics) > 0 {
			violation(rt, id, "meta", "c12", len(srcA), c, "analyzer panicked: %v %v", base.Panics, after.Panics)
		}
		ka := siteKeys(srcA, base.Diags, 0, nil, false)
		kb := siteKeys(srcB, after.Diags, 0, nil, false)
		if d := diffSets(ka, kb, "base", "transformed"); d != "" {
			violation(rt, id, "meta", "c12", p.Size(), c, "layout change [%s] changed the verdicts: %s", strings.Join(labels, " + "), d)
		}
		if nt && len(ka) > 0 {
			ev.NonTrivial(id, ev.Hash(fmt.Sprint(srcA), fmt.Sprint(srcB)))
		}
		ev.Class(id, fmt.Sprintf("base diagnostics %s", bucket(len(ka))))
		if ev.SampleCount(id) < 3 && nt && len(ka) > 2 && p.Size() < 160 {
			ev.Sample(id, map[string]interface{}{"transformations": labels, "base": srcA, "transformed": srcB, "verdicts": sortedKeys(ka)})
		}
	})
}

func sortedKeys(m map[string]bool) []string {
	return engine.SortedKeys(m)
}
