package props

import (
	"fmt"
	"testing"

	"verif/harness/ev"
	"verif/harness/proggen"
)

func TestC04(t *testing.T) {
	exactProperty(t, exactSpec{
		id: "C04", focus: "pkgo", prefix: "PKGO", expect: proggen.ExpectPKGO,
		rule: "rapid-generated multi-package programs; @packageonly on types / functions / methods with 1-3 annotation lines (empty, package names, full paths, duplicates, near-misses such as a changed last character), user packages allowed by name, by path, by neither, the declaring package itself; references: call, function value, method call, method value, method expression (+call), type in literal / var / field / parameter / result / new / conversion. oracle = allowed(P,item) <=> P = D or path(P) in union(lists) or name(P) in union(lists); PKGO02/03 on every reference line of a non-allowed P, PKGO01 once per (file, D, type) at the first reference in source order. non-trivial = program with a user package allowed by name only or by path only, or an item with >=2 annotation lines, and >=1 expected PKGO diagnostic; distinct by source hash",
		nontriv: func(p *proggen.Prog, e *proggen.Expect) bool {
			if e.Count() == 0 {
				return false
			}
			multi := false
			for _, t := range p.AllTypes() {
				if len(t.PackageOnly) >= 2 {
					multi = true
				}
			}
			for _, f := range p.AllFuncs() {
				if len(f.PackageOnly) >= 2 {
					multi = true
				}
			}
			return multi || c04AllowedByOne(p)
		},
		classify: func(id string, p *proggen.Prog, e *proggen.Expect) {
			p.Walk(func(si proggen.SiteInfo) {
				if si.Site.Kind == "mcall.chain" {
					n := 0
					for _, c := range e.Counts[si.Site.ID] {
						n += c
					}
					ev.Class(id, fmt.Sprintf("chained call x.M1().M2() with %d expected reports", n))
				}
			})
			for _, pk := range p.Pkgs {
				if pk.Consumer {
					ev.Class(id, "program with a package that declares no annotations of its own")
					break
				}
			}
			p.Walk(func(si proggen.SiteInfo) {
				for _, evn := range si.Site.Events() {
					var lists [][]string
					var item string
					var dpkg *proggen.Pkg
					switch {
					case evn.Cat == "MENTION" && evn.Type.PackageOnly != nil:
						lists, item, dpkg = evn.Type.PackageOnly, "type("+evn.Mention+")", evn.Type.Pkg
					case evn.Fn != nil && evn.Fn.PackageOnly != nil:
						lists, item, dpkg = evn.Fn.PackageOnly, evn.Cat, evn.Fn.Pkg
					default:
						continue
					}
					upath, uname := si.Ctx.File.SrcPkgPath(), si.Ctx.File.PkgName()
					how := "not-allowed"
					switch {
					case dpkg.Path() == upath:
						how = "declaring-pkg"
					case allowedBy(lists, upath) && allowedBy(lists, uname):
						how = "allowed-by-both"
					case allowedBy(lists, upath):
						how = "allowed-by-path"
					case allowedBy(lists, uname):
						how = "allowed-by-name"
					}
					verdict := "silent"
					for _, c := range []string{"PKGO01", "PKGO02", "PKGO03"} {
						if e.Must[si.Site.ID][c] {
							verdict = "reported " + c
						}
					}
					ev.Class(id, fmt.Sprintf("%s %s %s lines=%d", item, how, verdict, len(lists)))
				}
			})
		},
	})
}

func allowedBy(lists [][]string, tok string) bool {
	for _, l := range lists {
		for _, it := range l {
			if it == tok {
				return true
			}
		}
	}
	return false
}

func c04AllowedByOne(p *proggen.Prog) bool {
	found := false
	p.Walk(func(si proggen.SiteInfo) {
		for _, evn := range si.Site.Events() {
			var lists [][]string
			switch {
			case evn.Cat == "MENTION" && evn.Type.PackageOnly != nil:
				lists = evn.Type.PackageOnly
			case evn.Fn != nil && evn.Fn.PackageOnly != nil:
				lists = evn.Fn.PackageOnly
			default:
				continue
			}
			a, b := allowedBy(lists, si.Ctx.File.SrcPkgPath()), allowedBy(lists, si.Ctx.File.PkgName())
			if a != b {
				found = true
			}
		}
	})
	return found
}
