package props

import (
	"fmt"
	"strings"
	"testing"

	"pgregory.net/rapid"

	"verif/harness/engine"
	"verif/harness/ev"
	"verif/harness/proggen"
)

// TestC13: enforcement follows type identity, not spelling at the use site.
func TestC13(t *testing.T) {
	const id = "C13"
	checkWitnesses(t, id)
	checkRegressions(t, id)
	ev.Rule(id, "rapid-generated multi-package programs naming every annotated type directly; a random subset of use-site type expressions is rewritten into identical types: alias declared in a new file of the using package, alias declared in a new third package (the user keeps a direct import of the declaring package), added parentheses where the grammar allows, renamed imports, value <-> pointer for parameters of uncalled functions / package-level closures, literals T{} <-> &T{} and named struct fields. oracle = metamorphic: same (site tag, code) set as the base (alias declaration lines themselves are new and not compared). non-trivial = >=1 rewritten site carried a diagnostic in the base; distinct by hash of (base, variant)")
	cfg := engine.DefaultConfig()
	rapid.Check(t, func(rt *rapid.T) {
		p := proggen.Gen(rt, proggen.GenOpts{Focus: "all", MinPkgs: 1, MaxPkgs: 3, TestFiles: false, Aliases: true, Rich: true})
		base := loadOrBug(rt, id, p, cfg)
		srcA := p.Sources()
		pkgsA := pkgDirs(p)
		maxTag := p.NewID()
		info := proggen.Respell(rt, p)
		nvp := 0
		if rapid.Bool().Draw(rt, "valuePointer") {
			var vs map[int]bool
			nvp, vs = proggen.RespellValuePointer(rt, p)
			for k := range vs {
				info.Sites[k] = true
			}
		}
		p.Render()
		after := loadOrBug(rt, id, p, cfg)
		srcB := p.Sources()
		ev.Eval(id)
		c := metaCase{PkgsA: pkgsA, A: srcA, PkgsB: pkgDirs(p), B: srcB, ConfigA: cfg, ConfigB: cfg, Mode: "same-sites", MaxTagA: maxTag,
			Note: fmt.Sprintf("local aliases %d, third-package aliases %d, parentheses %d, import renames %d, value<->pointer %d", info.LocalAlias, info.ThirdPkgAlias, info.Paren, info.ImportRename, nvp)}
		if len(base.Panics)+len(after.Panics) > 0 {
			violation(rt, id, "meta", "c13", p.Size(), c, "analyzer panicked: %v %v", base.Panics, after.Panics)
		}
		ka := siteKeys(srcA, base.Diags, maxTag, nil, true)
		kb := siteKeys(srcB, after.Diags, maxTag, nil, true)
		if shapeExcluded("c13-alias") {
			// known finding: alias spellings lose enforcement; only judge the
			// programs where no alias was introduced
			if info.LocalAlias+info.ThirdPkgAlias > 0 {
				ev.Class(id, "excluded_known_alias")
				return
			}
		}
		// an alias declared in the function body right before the statement names the
		// type one line earlier: the once-per-file PKGO01 of that statement (if it was the
		// file's first use) legitimately moves to the alias declaration
		for _, sid := range info.FuncLocalSites {
			for _, k := range []string{fmt.Sprintf("s%d PKGO01", sid)} {
				delete(ka, k)
				delete(kb, k)
			}
		}
		if d := diffSets(ka, kb, "base", "respelled"); d != "" {
			violation(rt, id, "meta", "c13", p.Size(), c, "respelling (%s) changed the verdicts: %s", c.Note, d)
		}
		nt := false
		for k := range ka {
			var sid int
			if _, err := fmt.Sscanf(k, "s%d ", &sid); err == nil && info.Sites[sid] {
				nt = true
			}
		}
		if nt {
			ev.NonTrivial(id, ev.Hash(fmt.Sprint(srcA), fmt.Sprint(srcB)))
		}
		ev.ClassN(id, "rewrites local-alias", int64(info.LocalAlias))
		ev.ClassN(id, "rewrites third-package-alias", int64(info.ThirdPkgAlias))
		ev.ClassN(id, "rewrites parentheses", int64(info.Paren))
		ev.ClassN(id, "rewrites of a method receiver (*(T), (*T), *LocalAlias)", int64(info.Recv))
		ev.ClassN(id, "rewrites through an alias declared inside the function body", int64(info.FuncLocalAlias))
		ev.ClassN(id, "aliases of aliases", int64(info.AliasChain))
		ev.ClassN(id, "pointer types behind an alias (type PAl = *T)", int64(info.PtrAlias))
		ev.ClassN(id, "rewrites import-rename", int64(info.ImportRename))
		ev.ClassN(id, "rewrites value<->pointer (param / literal / field)", int64(nvp))
		for k := range ka {
			var sid int
			var code string
			if _, err := fmt.Sscanf(k, "s%d %s", &sid, &code); err == nil && info.Sites[sid] {
				ev.Class(id, "rewritten site carried "+code)
			}
		}
		if ev.SampleCount(id) < 3 && nt && p.Size() < 170 {
			ev.Sample(id, map[string]interface{}{"rewrites": c.Note, "base": srcA, "respelled": srcB, "verdicts": sortedKeys(ka)})
		}
		_ = strings.Join
	})
}
