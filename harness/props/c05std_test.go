package props

import (
	"encoding/json"
	"fmt"
	"go/types"
	"regexp"
	"sort"
	"strings"
	"sync"
	"testing"

	"golang.org/x/tools/go/packages"
	"pgregory.net/rapid"

	"verif/harness/engine"
	"verif/harness/ev"
)

// C05 on the documented main use case: interfaces of the standard library,
// through the real drivers. The implementing package is generated from the
// method sets go/types reports for the std interfaces; the oracle is again
// go/types (on the package as the real loader sees it, dependencies included),
// the tool runs as the standalone binary and under go vet -vettool (where the
// types of dependencies come from export data).

type c05StdCase struct {
	Source string `json:"impl_source"` // impl/impl.go of module vf.test/m
	Driver string `json:"driver"`      // binary | vet
}

type stdIface struct {
	Pkg     string // import path
	Name    string
	Methods []*types.Func // complete method set (embedded interfaces flattened), exported or not
	Sealed  bool          // has unexported methods: can only be satisfied by embedding
}

var (
	stdOnce   sync.Once
	stdIfaces []stdIface
	stdErr    error
)

var stdIfacePkgs = []string{"io", "fmt", "sort", "context", "encoding", "encoding/json", "hash", "io/fs", "flag", "container/heap", "net", "image", "image/color", "image/draw", "database/sql/driver", "text/template/parse", "go/ast", "reflect", "testing", "crypto", "math/rand", "net/http", "os"}

func loadStdIfaces() ([]stdIface, error) {
	stdOnce.Do(func() {
		dir, err := engine.Scratch()
		if err != nil {
			stdErr = err
			return
		}
		defer engine.RmScratch(dir)
		if err := engine.WriteToDisk(&engine.Program{Module: "vf.test/m"}, dir); err != nil {
			stdErr = err
			return
		}
		cfg := &packages.Config{Mode: packages.NeedName | packages.NeedTypes | packages.NeedImports | packages.NeedDeps, Dir: dir, Env: engine.BaseEnv(nil)}
		pkgs, err := packages.Load(cfg, stdIfacePkgs...)
		if err != nil {
			stdErr = err
			return
		}
		for _, p := range pkgs {
			if p.Types == nil || len(p.Errors) > 0 {
				continue
			}
			sc := p.Types.Scope()
			for _, n := range sc.Names() {
				tn, ok := sc.Lookup(n).(*types.TypeName)
				if !ok || !tn.Exported() || tn.IsAlias() {
					continue
				}
				named, ok := tn.Type().(*types.Named)
				if !ok || named.TypeParams().Len() > 0 {
					continue
				}
				it, ok := named.Underlying().(*types.Interface)
				if !ok || it.NumMethods() == 0 || it.NumMethods() > 8 || !it.IsMethodSet() {
					continue
				}
				si := stdIface{Pkg: p.PkgPath, Name: n}
				for i := 0; i < it.NumMethods(); i++ {
					m := it.Method(i)
					si.Methods = append(si.Methods, m)
					if !m.Exported() {
						si.Sealed = true
					}
				}
				stdIfaces = append(stdIfaces, si)
			}
		}
		sort.Slice(stdIfaces, func(i, j int) bool {
			return stdIfaces[i].Pkg+"."+stdIfaces[i].Name < stdIfaces[j].Pkg+"."+stdIfaces[j].Name
		})
	})
	return stdIfaces, stdErr
}

// c05StdProgram draws impl/impl.go.
func c05StdProgram(rt *rapid.T, ifs []stdIface) (string, map[string]int) {
	classes := map[string]int{}
	nT := rapid.IntRange(4, 14).Draw(rt, "ntypes")
	type imp struct{ path, name string }
	imports := map[string]*imp{} // by path
	taken := map[string]bool{"impl": true}
	importName := func(path string) string {
		if im := imports[path]; im != nil {
			return im.name
		}
		base := path[strings.LastIndex(path, "/")+1:]
		name := base
		if path == "math/rand" {
			name = "rand"
		}
		if taken[name] || rapid.IntRange(0, 9).Draw(rt, "aliasImport") < 2 {
			name = fmt.Sprintf("std%s%d", strings.ReplaceAll(base, "/", ""), len(imports))
			classes["std package imported under an alias"]++
		}
		taken[name] = true
		imports[path] = &imp{path, name}
		return name
	}
	qualifier := func(p *types.Package) string {
		if p.Path() == "vf.test/m/impl" {
			return ""
		}
		return importName(p.Path())
	}
	var body strings.Builder
	for ti := 0; ti < nT; ti++ {
		it := ifs[rapid.IntRange(0, len(ifs)-1).Draw(rt, "iface")]
		q := importName(it.Pkg)
		tname := fmt.Sprintf("T%d", ti)
		amp := ""
		if rapid.Bool().Draw(rt, "amp") {
			amp = "&"
		}
		iname := it.Name
		qual := q
		switch rapid.IntRange(0, 19).Draw(rt, "annotShape") {
		case 0:
			qual = "nosuchpkg"
		case 1:
			iname = "NoSuch" + it.Name
		case 2:
			// the import path's last element where the file binds another name
			qual = it.Pkg[strings.LastIndex(it.Pkg, "/")+1:]
		}
		fmt.Fprintf(&body, "// @implements %s%s.%s\n", amp, qual, iname)
		if rapid.IntRange(0, 3).Draw(rt, "secondAnnotation") == 0 {
			// the same interface in the other & mode on the same declaration
			other := "&"
			if amp == "&" {
				other = ""
			}
			fmt.Fprintf(&body, "// @implements %s%s.%s\n", other, q, it.Name)
			classes["second @implements line in the other & mode"]++
		}
		mode := rapid.IntRange(0, 9).Draw(rt, "provide")
		switch {
		case mode == 0:
			// embedded interface value: every method promoted
			fmt.Fprintf(&body, "type %s struct{ %s.%s }\n\n", tname, q, it.Name)
			classes["promoted via embedded std interface"]++
			continue
		case mode == 1 && it.Pkg == "io" && (it.Name == "Reader" || it.Name == "Writer" || it.Name == "ReadWriter" || it.Name == "ByteReader" || it.Name == "StringWriter" || it.Name == "WriterTo" || it.Name == "ReaderFrom"):
			// embedded std struct that happens to implement it (pointer receivers)
			b := importName("bytes")
			if rapid.Bool().Draw(rt, "embedPtr") {
				fmt.Fprintf(&body, "type %s struct{ *%s.Buffer }\n\n", tname, b)
			} else {
				fmt.Fprintf(&body, "type %s struct{ %s.Buffer }\n\n", tname, b)
			}
			classes["promoted via embedded bytes.Buffer"]++
			continue
		}
		fmt.Fprintf(&body, "type %s struct{}\n\n", tname)
		ptrRecv := rapid.Bool().Draw(rt, "ptrRecv")
		for _, m := range it.Methods {
			if !m.Exported() {
				classes["unexported interface method (cannot be provided)"]++
				continue
			}
			how := rapid.IntRange(0, 99).Draw(rt, "how")
			if how < 8 {
				classes["method absent"]++
				continue
			}
			sig := m.Type().(*types.Signature)
			text := strings.TrimPrefix(types.TypeString(sig, qualifier), "func")
			if how < 20 {
				// minimally different signature
				if sig.Results().Len() > 0 {
					text = strings.TrimPrefix(types.TypeString(types.NewSignatureType(nil, nil, nil, sig.Params(), types.NewTuple(types.NewVar(0, nil, "", types.Typ[types.Int8])), sig.Variadic()), qualifier), "func")
					classes["method with a different result list"]++
				} else {
					ps := []*types.Var{}
					for i := 0; i < sig.Params().Len(); i++ {
						ps = append(ps, sig.Params().At(i))
					}
					if !sig.Variadic() {
						extra := "extra"
						if sig.Params().Len() > 0 && sig.Params().At(0).Name() == "" {
							extra = "" // parameters are named all or none
						}
						ps = append(ps, types.NewVar(0, nil, extra, types.Typ[types.Int]))
						text = strings.TrimPrefix(types.TypeString(types.NewSignatureType(nil, nil, nil, types.NewTuple(ps...), sig.Results(), false), qualifier), "func")
						classes["method with an extra parameter"]++
					}
				}
			}
			recv := tname
			if ptrRecv {
				recv = "*" + tname
			}
			fmt.Fprintf(&body, "func (recv_ %s) %s%s { panic(0) }\n\n", recv, m.Name(), text)
		}
		if ptrRecv {
			classes["pointer receivers"]++
		} else {
			classes["value receivers"]++
		}
		if it.Sealed {
			classes["interface with unexported methods"]++
		}
	}
	var head strings.Builder
	head.WriteString("package impl\n\nimport (\n")
	var paths []string
	for p := range imports {
		paths = append(paths, p)
	}
	sort.Strings(paths)
	// a perturbed signature may have dropped the only mention of a package
	used := func(name string) bool {
		return regexp.MustCompile(`(^|[^A-Za-z0-9_])` + regexp.QuoteMeta(name) + `\.`).MatchString(body.String())
	}
	for _, p := range paths {
		im := imports[p]
		if !used(im.name) {
			continue
		}
		base := p[strings.LastIndex(p, "/")+1:]
		if im.name == base {
			fmt.Fprintf(&head, "\t%q\n", p)
		} else {
			fmt.Fprintf(&head, "\t%s %q\n", im.name, p)
		}
	}
	head.WriteString(")\n\n")
	// keep every import used (annotations are comments: they do not count)
	for _, p := range paths {
		im := imports[p]
		if !used(im.name) {
			continue
		}
		switch p {
		case "bytes":
			fmt.Fprintf(&head, "var _ %s.Buffer\n", im.name)
		default:
			for _, it := range ifs {
				if it.Pkg == p {
					fmt.Fprintf(&head, "var _ %s.%s\n", im.name, it.Name)
					break
				}
			}
		}
	}
	head.WriteString("\n")
	return head.String() + body.String(), classes
}

func c05StdRun(c c05StdCase) (string, []c05Verdict) {
	dir, err := engine.Scratch()
	if err != nil {
		return "GENERATOR-BUG " + err.Error(), nil
	}
	defer engine.RmScratch(dir)
	prog := &engine.Program{Module: "vf.test/m", Pkgs: []*engine.Package{{Path: "vf.test/m/impl", Files: []engine.File{{Name: "impl.go", Src: c.Source}}}}}
	if err := engine.WriteToDisk(prog, dir); err != nil {
		return "GENERATOR-BUG " + err.Error(), nil
	}
	pkgs, err := engine.LoadReal(dir, nil, nil, false, "./impl")
	if err != nil || len(pkgs) != 1 {
		return fmt.Sprintf("GENERATOR-BUG load: %v", err), nil
	}
	if len(pkgs[0].Errors) > 0 {
		return fmt.Sprintf("GENERATOR-BUG type errors: %v", pkgs[0].Errors[0]), nil
	}
	verdicts := c05ExpectedFile(pkgs[0], pkgs[0].Syntax[0], c.Source)
	var pr *engine.ProcResult
	if c.Driver == "vet" {
		pr = engine.RunVet(dir, nil, nil, "./impl")
	} else {
		pr = engine.RunBinary(dir, nil, nil, "./impl")
	}
	if pr.TimedOut {
		return "INCONCLUSIVE timeout", verdicts
	}
	if len(pr.Panics) > 0 {
		return c.Driver + " crashed: " + pr.Panics[0], verdicts
	}
	if len(pr.Errors) > 0 {
		return c.Driver + " reported an analysis error: " + pr.Errors[0], verdicts
	}
	// the package has no test files, so there is exactly one variant: every diagnostic counts
	// (two annotations of one type can legitimately produce two identical messages)
	diags := pr.Diags
	return c05CompareVerdicts(verdicts, diags), verdicts
}

func init() {
	replayers["c05std"] = func(data json.RawMessage) string {
		var c c05StdCase
		if err := json.Unmarshal(data, &c); err != nil {
			return "bad replay: " + err.Error()
		}
		why, _ := c05StdRun(c)
		if strings.HasPrefix(why, "GENERATOR-BUG") || strings.HasPrefix(why, "INCONCLUSIVE") {
			return ""
		}
		return why
	}
}

// TestC05Std: std interfaces through the real drivers (budgeted: every case costs seconds).
func TestC05Std(t *testing.T) {
	const id = "C05"
	if engine.BinPath() == "" {
		t.Skip("no binary")
	}
	ifs, err := loadStdIfaces()
	if err != nil || len(ifs) < 20 {
		t.Fatalf("GENERATOR-BUG std interfaces: %v (%d found)", err, len(ifs))
	}
	_, sn := shard()
	budget := scale(12, 640) / sn
	if budget < 1 {
		budget = 1
	}
	n := 0
	rapid.Check(t, func(rt *rapid.T) {
		if n >= budget {
			return
		}
		n++
		src, classes := c05StdProgram(rt, ifs)
		c := c05StdCase{Source: src, Driver: rapid.SampledFrom([]string{"binary", "binary", "vet"}).Draw(rt, "driver")}
		why, verdicts := c05StdRun(c)
		if strings.HasPrefix(why, "GENERATOR-BUG") {
			// signatures are rendered from std's own types; a program that does not
			// compile is dropped and counted, never judged
			ev.Class(id, "std program not compilable (dropped)")
			return
		}
		if strings.HasPrefix(why, "INCONCLUSIVE") {
			ev.Inconclusive(id, why)
			return
		}
		ev.Eval(id)
		if why != "" {
			violation(rt, id, "c05std", "std", len(src), c, "std interfaces via %s: @implements verdict differs from Go's type checker: %s", c.Driver, why)
		}
		ev.Class(id, "std-interface program via "+c.Driver)
		for k, v := range classes {
			ev.ClassN(id, "std: "+k, int64(v))
		}
		nt := false
		for _, v := range verdicts {
			code := v.Code
			if code == "" {
				code = "ok"
			}
			if v.Open != "" {
				code = "unspecified"
			}
			ev.Class(id, "std verdict "+code)
			if v.Class == "method-set comparison" {
				nt = true
			}
		}
		if nt {
			ev.NonTrivial(id, ev.Hash("std", src, c.Driver))
		}
		if ev.SampleCount(id) < 5 && len(src) < 2500 {
			ev.Sample(id, map[string]interface{}{"kind": "std interfaces", "driver": c.Driver, "impl.go": src})
		}
	})
}
