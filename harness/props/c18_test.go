package props

import (
	"encoding/json"
	"fmt"
	"os"
	"path/filepath"
	"strings"
	"sync"
	"testing"

	"pgregory.net/rapid"

	"verif/harness/engine"
	"verif/harness/ev"
)

// optState: how one option is given.
type optState struct {
	Flag     *string `json:"flag"`      // nil = flag absent; for the bool flag "" means the bare form
	Env      *string `json:"env"`       // nil = variable unset
	BareBool bool    `json:"bare_bool"` // scan-tests given as --config.scan-tests (no value)
}

type c18Case struct {
	ScanTests     optState `json:"scan_tests"`
	ExcludePaths  optState `json:"exclude_paths"`
	ExcludeChecks optState `json:"exclude_checks"`
	Driver        string   `json:"driver"` // binary | vet
}

// ---- reference resolution (restated from the documentation) -----------------

func refEnvBool(s string) bool {
	v := strings.ToLower(strings.TrimSpace(s))
	switch v {
	case "1", "t", "true", "yes", "on":
		return true
	}
	return false
}

func refFlagBool(s string) (bool, bool) {
	switch s {
	case "1", "t", "T", "TRUE", "true", "True":
		return true, true
	case "0", "f", "F", "FALSE", "false", "False":
		return false, true
	}
	return false, false
}

func c18Resolve(c c18Case) (scan bool, paths, checks []string) {
	switch {
	case c.ScanTests.BareBool:
		scan = true
	case c.ScanTests.Flag != nil:
		scan, _ = refFlagBool(*c.ScanTests.Flag)
	case c.ScanTests.Env != nil:
		scan = refEnvBool(*c.ScanTests.Env)
	}
	switch {
	case c.ExcludePaths.Flag != nil:
		paths = refParseList(*c.ExcludePaths.Flag, false)
	case c.ExcludePaths.Env != nil:
		paths = refParseList(*c.ExcludePaths.Env, false)
	default:
		paths = []string{"testdata"}
	}
	switch {
	case c.ExcludeChecks.Flag != nil:
		checks = refParseList(*c.ExcludeChecks.Flag, true)
	case c.ExcludeChecks.Env != nil:
		checks = refParseList(*c.ExcludeChecks.Env, true)
	default:
		checks = []string{}
	}
	return
}

var (
	c18Once sync.Once
	c18Dir  string
	c18Src  map[string]string
)

func c18ProbeDir() string {
	c18Once.Do(func() {
		d, err := engine.Scratch()
		if err != nil {
			return
		}
		pkgs, src := probeSources()
		if err := engine.WriteToDisk(enginePkgs(pkgs, src), d); err != nil {
			return
		}
		if r, err := filepath.EvalSymlinks(d); err == nil {
			d = r
		}
		c18Dir, c18Src = d, src
	})
	return c18Dir
}

func c18Run(c c18Case) string {
	dir := c18ProbeDir()
	if dir == "" || engine.BinPath() == "" {
		return ""
	}
	var flags, env []string
	if c.ScanTests.BareBool {
		flags = append(flags, "--config.scan-tests")
	} else if c.ScanTests.Flag != nil {
		flags = append(flags, "--config.scan-tests="+*c.ScanTests.Flag)
	}
	if c.ExcludePaths.Flag != nil {
		flags = append(flags, "--config.exclude-paths="+*c.ExcludePaths.Flag)
	}
	if c.ExcludeChecks.Flag != nil {
		flags = append(flags, "-config.exclude-checks="+*c.ExcludeChecks.Flag)
	}
	if c.ScanTests.Env != nil {
		env = append(env, "GOGREEMENT_SCAN_TESTS="+*c.ScanTests.Env)
	}
	if c.ExcludePaths.Env != nil {
		env = append(env, "GOGREEMENT_EXCLUDE_PATHS="+*c.ExcludePaths.Env)
	}
	if c.ExcludeChecks.Env != nil {
		env = append(env, "GOGREEMENT_EXCLUDE_CHECKS="+*c.ExcludeChecks.Env)
	}
	var pr *engine.ProcResult
	if c.Driver == "vet" {
		pr = engine.RunVet(dir, flags, env, "./...", "./testdata/q")
	} else {
		pr = engine.RunBinary(dir, flags, env, "./...", "./testdata/q")
	}
	if pr.TimedOut {
		return "INCONCLUSIVE timeout"
	}
	if len(pr.Panics) > 0 {
		return "tool crashed: " + pr.Panics[0]
	}
	if c.Driver != "vet" && pr.Exit != 0 {
		return fmt.Sprintf("tool failed: exit %d: %s", pr.Exit, firstLine(pr.Stderr))
	}
	if len(pr.Errors) > 0 {
		return "tool reported errors: " + pr.Errors[0]
	}
	scan, paths, checks := c18Resolve(c)
	want := probeExpected(dir, scan, paths, checks)
	got := siteKeys(c18Src, pr.Diags, 0, nil, true)
	if d := diffSets(want, got, "expected", "tool"); d != "" {
		return fmt.Sprintf("effective config should be scan-tests=%v exclude-paths=%q exclude-checks=%q: %s", scan, paths, checks, d)
	}
	return ""
}

func init() {
	replayers["c18"] = func(data json.RawMessage) string {
		var c c18Case
		if err := json.Unmarshal(data, &c); err != nil {
			return "bad replay: " + err.Error()
		}
		r := c18Run(c)
		if strings.HasPrefix(r, "INCONCLUSIVE") {
			return ""
		}
		return r
	}
}

func sp(s string) *string { return &s }

func TestC18(t *testing.T) {
	const id = "C18"
	checkWitnesses(t, id)
	checkRegressions(t, id)
	if engine.BinPath() == "" {
		t.Fatalf("GENERATOR-BUG no binary (VERIF_GOGREEMENT unset)")
	}
	defer func() {
		if c18Dir != "" {
			engine.RmScratch(c18Dir)
		}
	}()
	ev.Rule(id, "the real binary in a fresh process per configuration on a probe module with planted violations (one per code in u/u.go, in u/u_test.go, u/gen_z.go, testdata/q, vendorx/r): the grid {flag absent, empty, value} x {env unset, empty, value} per option (bool flag: absent / bare / =spelling) with values from all boolean spellings (any case, blanks, t, T, 1, yes, on, y, 2, ...), lists with blanks / empty items / mixed case / tokens matching file names and directories, and rapid-generated environment strings; GOGREEMENT_ENV_ONLY unset; a sample through go vet -vettool. oracle = restated resolution (flag > env-if-set > default) + list/bool parsing + reference skip predicate + reference code matcher => expected set of planted-violation ids; exit status must be 0. non-trivial = flag and env both given and resolving differently, or env set-but-empty, or a list needing trimming / case folding / empty-item dropping; distinct by configuration")
	boolEnv := []string{"true", "TRUE", "True", "tRuE", " true ", "\ttrue\n", "1", " 1", "t", "T", "yes", "YES", " Yes ", "on", "On", "ON", "y", "Y", "2", "0", "false", "FALSE", "off", "no", " ", "enabled", "tru", "01", "truee", "ye s", "+1", "1.0", " true"}
	boolFlag := []string{"true", "false", "1", "0", "t", "f", "T", "F", "TRUE", "FALSE", "True", "False"}
	pathVals := []string{"testdata", "gen_", "vendorx", "testdata,gen_", " gen_ , vendorx ", "gen_,,vendorx,", "nomatch", "_test.go", "u_test", "u/u.go", "q.go", "TESTDATA", "Gen_", "r/r", ",", " , ", "testdata/q", "vendorx/r/r.go", "/u/", "zzz,yyy", " ", "\t", "   ", " gen_"}
	checkVals := []string{"IMM", "imm", "Imm01", "CTOR,TONL", " pkgo , impl03 ", "ALL", "all", "IMM01,IMM02,IMM03,IMM04", "ZZZ", "IM", "IMM0", ",", "ctor01,,ctor03,", "tonl02 ,PKGO", "Impl", "*", "IMM 01", " ", "\t", "  imm"}
	fuzzEnv := rapid.StringOfN(rapid.RuneFrom([]rune("abcIMTOPKGLtrue10,; \t./_-*%$=\"'\\éß日")), 0, 24, -1)
	vetBudget := scale(6, 120)
	vetN := 0
	rapid.Check(t, func(rt *rapid.T) {
		state := func(label string, vals []string, fuzz bool) optState {
			var o optState
			switch rapid.IntRange(0, 2).Draw(rt, label+"Flag") {
			case 1:
				o.Flag = sp("")
			case 2:
				o.Flag = sp(vals[rapid.IntRange(0, len(vals)-1).Draw(rt, label+"FlagVal")])
			}
			switch rapid.IntRange(0, 3).Draw(rt, label+"Env") {
			case 1:
				o.Env = sp("")
			case 2:
				o.Env = sp(vals[rapid.IntRange(0, len(vals)-1).Draw(rt, label+"EnvVal")])
			case 3:
				if fuzz {
					o.Env = sp(fuzzEnv.Draw(rt, label+"EnvFuzz"))
				}
			}
			return o
		}
		var c c18Case
		c.ExcludePaths = state("paths", pathVals, true)
		c.ExcludeChecks = state("checks", checkVals, true)
		// bool option
		switch rapid.IntRange(0, 2).Draw(rt, "scanFlag") {
		case 1:
			c.ScanTests.BareBool = true
		case 2:
			c.ScanTests.Flag = sp(boolFlag[rapid.IntRange(0, len(boolFlag)-1).Draw(rt, "scanFlagVal")])
		}
		switch rapid.IntRange(0, 3).Draw(rt, "scanEnv") {
		case 1:
			c.ScanTests.Env = sp("")
		case 2:
			c.ScanTests.Env = sp(boolEnv[rapid.IntRange(0, len(boolEnv)-1).Draw(rt, "scanEnvVal")])
		case 3:
			c.ScanTests.Env = sp(fuzzEnv.Draw(rt, "scanEnvFuzz"))
		}
		c.Driver = "binary"
		if vetN < vetBudget && rapid.IntRange(0, 19).Draw(rt, "vet") == 0 {
			vetN++
			c.Driver = "vet"
		}
		ev.Eval(id)
		why := c18Run(c)
		if strings.HasPrefix(why, "INCONCLUSIVE") {
			ev.Inconclusive(id, why)
			return
		}
		if why != "" {
			b, _ := json.Marshal(c)
			violation(rt, id, "c18", "c18", len(b), c, "configuration %s: %s", string(b), why)
		}
		// classification
		nt := false
		conflict := func(o optState, bare bool) bool { return (o.Flag != nil || bare) && o.Env != nil }
		if conflict(c.ScanTests, c.ScanTests.BareBool) {
			ev.Class(id, "scan-tests: flag and env both given")
			f := c.ScanTests.BareBool
			if c.ScanTests.Flag != nil {
				f, _ = refFlagBool(*c.ScanTests.Flag)
			}
			if f != refEnvBool(*c.ScanTests.Env) {
				nt = true
			}
		}
		for name, o := range map[string]optState{"exclude-paths": c.ExcludePaths, "exclude-checks": c.ExcludeChecks} {
			if conflict(o, false) {
				ev.Class(id, name+": flag and env both given")
				if *o.Flag != *o.Env {
					nt = true
				}
			}
			if o.Flag == nil && o.Env != nil && *o.Env == "" {
				ev.Class(id, name+": env set but empty")
				nt = true
			}
			for _, v := range []*string{o.Flag, o.Env} {
				if v != nil && (strings.ContainsAny(*v, " \t") || strings.Contains(*v, ",,") || strings.HasSuffix(*v, ",") || *v != strings.ToUpper(*v) && name == "exclude-checks") {
					nt = true
				}
			}
		}
		if c.ScanTests.Env != nil && c.ScanTests.Flag == nil && !c.ScanTests.BareBool {
			ev.Class(id, fmt.Sprintf("scan-tests from env %q -> %v", *c.ScanTests.Env, refEnvBool(*c.ScanTests.Env)))
		}
		ev.Class(id, "driver "+c.Driver)
		if nt {
			b, _ := json.Marshal(c)
			ev.NonTrivial(id, ev.Hash(string(b)))
		}
		if ev.SampleCount(id) < 4 && nt {
			scan, paths, checks := c18Resolve(c)
			ev.Sample(id, map[string]interface{}{"configuration": c, "resolved": map[string]interface{}{"scan_tests": scan, "exclude_paths": paths, "exclude_checks": checks}, "expected_reports": sortedSet(probeExpected(c18ProbeDir(), scan, paths, checks))})
		}
	})
	_ = os.Getenv
}

// ---- in-process resolution: the Config value every analyzer consumes -----------------

var c18EnvNames = []string{"GOGREEMENT_SCAN_TESTS", "GOGREEMENT_EXCLUDE_PATHS", "GOGREEMENT_EXCLUDE_CHECKS"}

// c18Inproc sets the process environment as the case says, runs the repository's
// own flag set + resolution code and compares the resulting Config with the
// restated resolution. Returns "" when they agree, "SKIP ..." when the case is
// outside the domain (a flag value the flag package rejects, NUL in a variable).
func c18Inproc(c c18Case) string {
	os.Unsetenv("GOGREEMENT_ENV_ONLY")
	for i, o := range []optState{c.ScanTests, c.ExcludePaths, c.ExcludeChecks} {
		if o.Env == nil {
			os.Unsetenv(c18EnvNames[i])
			continue
		}
		if strings.ContainsRune(*o.Env, 0) {
			return "SKIP NUL in environment value"
		}
		if err := os.Setenv(c18EnvNames[i], *o.Env); err != nil {
			return "SKIP " + err.Error()
		}
	}
	defer func() {
		for _, n := range c18EnvNames {
			os.Unsetenv(n)
		}
	}()
	scanFlag := c.ScanTests.Flag
	if c.ScanTests.BareBool {
		scanFlag = sp("true")
	}
	if scanFlag != nil {
		if _, ok := refFlagBool(*scanFlag); !ok {
			return "SKIP boolean flag value the flag package rejects"
		}
	}
	cfg, err := engine.ParseConfig(scanFlag, c.ExcludePaths.Flag, c.ExcludeChecks.Flag)
	if err != nil {
		return "SKIP " + err.Error()
	}
	scan, paths, checks := c18Resolve(c)
	var probs []string
	if cfg.ScanTests != scan {
		probs = append(probs, fmt.Sprintf("scan-tests resolved to %v, expected %v", cfg.ScanTests, scan))
	}
	if fmt.Sprintf("%q", cfg.ExcludePaths) != fmt.Sprintf("%q", paths) && !(len(cfg.ExcludePaths) == 0 && len(paths) == 0) {
		probs = append(probs, fmt.Sprintf("exclude-paths resolved to %q, expected %q", cfg.ExcludePaths, paths))
	}
	if fmt.Sprintf("%q", cfg.ExcludeChecks) != fmt.Sprintf("%q", checks) && !(len(cfg.ExcludeChecks) == 0 && len(checks) == 0) {
		probs = append(probs, fmt.Sprintf("exclude-checks resolved to %q, expected %q", cfg.ExcludeChecks, checks))
	}
	return strings.Join(probs, "; ")
}

func init() {
	replayers["c18inproc"] = func(data json.RawMessage) string {
		var c c18Case
		if err := json.Unmarshal(data, &c); err != nil {
			return "bad replay: " + err.Error()
		}
		if r := c18Inproc(c); !strings.HasPrefix(r, "SKIP") {
			return r
		}
		return ""
	}
}

// TestC18Inproc: the same grid, thousands of configurations, observed at the
// Config value (no process per case).
func TestC18Inproc(t *testing.T) {
	const id = "C18"
	boolEnv := []string{"true", "TRUE", "True", "tRuE", " true ", "\ttrue\n", "1", " 1", "t", "T", "yes", "YES", " Yes ", "on", "On", "ON", "oN", "yEs", "y", "Y", "2", "0", "false", "FALSE", "off", "no", " ", "enabled", "tru", "01", "truee", "ye s", "+1", "1.0", " true", "TrUe", "trUE ", "\u00a0true"}
	boolFlag := []string{"true", "false", "1", "0", "t", "f", "T", "F", "TRUE", "FALSE", "True", "False"}
	item := rapid.OneOf(
		rapid.SampledFrom([]string{"testdata", "gen_", "vendorx", "IMM", "imm01", "Ctor", "ALL", "all", "tonl02", "", " ", "\t", "a b", "é", "x/y.go", "*", "im", "I", "IMM0", "ZZZ9"}),
		rapid.StringMatching(`[ \t]{0,2}[A-Za-z0-9_./-]{0,6}[ \t]{0,2}`),
	)
	list := rapid.Custom(func(rt *rapid.T) string {
		n := rapid.IntRange(0, 5).Draw(rt, "nItems")
		var parts []string
		for i := 0; i < n; i++ {
			parts = append(parts, item.Draw(rt, "item"))
		}
		return strings.Join(parts, rapid.SampledFrom([]string{",", ",", ", ", " ,", ",,"}).Draw(rt, "sep"))
	})
	anyStr := rapid.StringOfN(rapid.RuneFrom([]rune("abcIMTOPKGLtrue10,; \t./_-*%$=\"'\\éß日\n")), 0, 24, -1)
	opt := func(rt *rapid.T, label string, vals *rapid.Generator[string]) optState {
		var o optState
		switch rapid.IntRange(0, 2).Draw(rt, label+"Flag") {
		case 1:
			o.Flag = sp("")
		case 2:
			o.Flag = sp(vals.Draw(rt, label+"FlagVal"))
		}
		switch rapid.IntRange(0, 3).Draw(rt, label+"Env") {
		case 1:
			o.Env = sp("")
		case 2:
			o.Env = sp(vals.Draw(rt, label+"EnvVal"))
		case 3:
			o.Env = sp(anyStr.Draw(rt, label+"EnvAny"))
		}
		return o
	}
	rapid.Check(t, func(rt *rapid.T) {
		// the process-per-case test shares -rapid.checks with this one; a case here
		// costs microseconds, so each rapid case judges a batch of configurations
		for batch, n := 0, rapid.IntRange(1, 80).Draw(rt, "batch"); batch < n; batch++ {
			c18InprocOne(rt, id, opt, list, boolFlag, boolEnv, anyStr)
		}
	})
}

func c18InprocOne(rt *rapid.T, id string, opt func(*rapid.T, string, *rapid.Generator[string]) optState, list *rapid.Generator[string], boolFlag, boolEnv []string, anyStr *rapid.Generator[string]) {
	{
		var c c18Case
		c.ExcludePaths = opt(rt, "paths", list)
		c.ExcludeChecks = opt(rt, "checks", list)
		switch rapid.IntRange(0, 2).Draw(rt, "scanFlag") {
		case 1:
			c.ScanTests.BareBool = true
		case 2:
			c.ScanTests.Flag = sp(rapid.SampledFrom(boolFlag).Draw(rt, "scanFlagVal"))
		}
		switch rapid.IntRange(0, 3).Draw(rt, "scanEnv") {
		case 1:
			c.ScanTests.Env = sp("")
		case 2:
			c.ScanTests.Env = sp(rapid.SampledFrom(boolEnv).Draw(rt, "scanEnvVal"))
		case 3:
			c.ScanTests.Env = sp(anyStr.Draw(rt, "scanEnvAny"))
		}
		c.Driver = "inproc"
		why := c18Inproc(c)
		if strings.HasPrefix(why, "SKIP") {
			return
		}
		ev.Eval(id)
		b, _ := json.Marshal(c)
		if why != "" {
			violation(rt, id, "c18inproc", "inproc", len(b), c, "configuration %s: %s", string(b), why)
		}
		ev.Class(id, "in-process resolution (Config value)")
		given := func(o optState, bare bool) bool { return (o.Flag != nil || bare) && o.Env != nil }
		if given(c.ScanTests, c.ScanTests.BareBool) || given(c.ExcludePaths, false) || given(c.ExcludeChecks, false) ||
			(c.ExcludePaths.Env != nil && *c.ExcludePaths.Env == "") || (c.ExcludeChecks.Env != nil && *c.ExcludeChecks.Env == "") {
			ev.NonTrivial(id, ev.Hash("inproc", string(b)))
		}
	}
}
