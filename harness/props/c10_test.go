package props

import (
	"encoding/json"
	"fmt"
	"os"
	"path/filepath"
	"sort"
	"strings"
	"testing"
	"time"

	"pgregory.net/rapid"

	"verif/harness/engine"
	"verif/harness/ev"
	"verif/harness/proggen"
)

// c10Case: sources + config that must be analysed without panic / internal error.
type c10Case struct {
	Pkgs    []string          `json:"pkgs"`
	Sources map[string]string `json:"sources"`
	Config  engine.Config     `json:"config"`
	Driver  string            `json:"driver"` // inproc | binary | vet
}

func c10Check(c c10Case) string {
	prog := enginePkgs(c.Pkgs, c.Sources)
	switch c.Driver {
	case "binary", "vet":
		if engine.BinPath() == "" {
			return ""
		}
		dir, err := engine.Scratch()
		if err != nil {
			return ""
		}
		defer engine.RmScratch(dir)
		if err := engine.WriteToDisk(prog, dir); err != nil {
			return ""
		}
		var flags []string
		if c.Config.ScanTests {
			flags = append(flags, "--config.scan-tests")
		}
		var pr *engine.ProcResult
		if c.Driver == "vet" {
			pr = engine.RunVet(dir, flags, nil, "./...")
		} else {
			pr = engine.RunBinary(dir, flags, nil, "./...")
		}
		if pr.TimedOut {
			return "INCONCLUSIVE timeout"
		}
		if len(pr.Panics) > 0 {
			return c.Driver + " crashed: " + pr.Panics[0]
		}
		if len(pr.Errors) > 0 {
			return c.Driver + " reported an analysis error: " + pr.Errors[0]
		}
		if c.Driver == "binary" && pr.Exit != 0 {
			return fmt.Sprintf("binary exit status %d: %s", pr.Exit, firstLine(pr.Stderr))
		}
		return ""
	}
	t0 := time.Now()
	type out struct {
		res *engine.Result
		ld  *engine.Loaded
		err error
	}
	ch := make(chan out, 1)
	go func() {
		r, l, e := engine.RunInproc(prog, c.Config, engine.Options{Sequential: true})
		ch <- out{r, l, e}
	}()
	var res *engine.Result
	var ld *engine.Loaded
	var err error
	select {
	case o := <-ch:
		res, ld, err = o.res, o.ld, o.err
	case <-time.After(c10HangBound):
		// the in-process run cannot be cancelled; confirm with a killable process
		return c10ConfirmHang(c)
	}
	if err != nil {
		return "GENERATOR-BUG load: " + err.Error()
	}
	if len(ld.TypeErrs) > 0 {
		return "GENERATOR-BUG type errors: " + strings.Join(ld.TypeErrs, "; ")
	}
	if len(res.Panics) > 0 {
		return "analyzer panicked: " + res.Panics[0]
	}
	if len(res.Errors) > 0 {
		return "analysis error: " + res.Errors[0]
	}
	if d := time.Since(t0); d > 60*time.Second {
		return fmt.Sprintf("INCONCLUSIVE slow run (%s)", d)
	}
	return ""
}

// c10HangBound: generated programs are analysed in a few milliseconds; a run
// that has not finished after this long is re-run in a separate process.
const c10HangBound = 25 * time.Second

// c10ConfirmHang re-runs the case through the real binary (a process that can
// be killed) with twice the bound. Only a second, solitary exceedance is a
// violation; anything else is inconclusive.
func c10ConfirmHang(c c10Case) string {
	if engine.BinPath() == "" {
		return "INCONCLUSIVE in-process run exceeded the bound and no binary is available to confirm"
	}
	dir, err := engine.Scratch()
	if err != nil {
		return "INCONCLUSIVE " + err.Error()
	}
	defer engine.RmScratch(dir)
	if err := engine.WriteToDisk(enginePkgs(c.Pkgs, c.Sources), dir); err != nil {
		return "INCONCLUSIVE " + err.Error()
	}
	var flags []string
	if c.Config.ScanTests {
		flags = append(flags, "--config.scan-tests")
	}
	pr := engine.RunBinaryTimeout(dir, 2*c10HangBound, flags, nil, "./...")
	if pr.TimedOut {
		return fmt.Sprintf("HANG analysis does not terminate: in-process run exceeded %s and the standalone binary, run alone, was killed after %s", c10HangBound, 2*c10HangBound)
	}
	return "INCONCLUSIVE in-process run exceeded the bound but the binary finished in " + pr.Wall.String()
}

func init() {
	replayers["c10"] = func(data json.RawMessage) string {
		var c c10Case
		if err := json.Unmarshal(data, &c); err != nil {
			return "bad replay: " + err.Error()
		}
		r := c10Check(c)
		if strings.HasPrefix(r, "INCONCLUSIVE") || strings.HasPrefix(r, "GENERATOR-BUG") {
			return ""
		}
		return r
	}
}

// zoo: hand-written files with shapes no generator of the other properties
// emits (generics, every kind of package-level initialiser, anonymous structs,
// embedded fields, labels, type switches, channels, iota, init, method values
// ...), all carrying annotations. {{PKG}} is replaced by the package name.
var c10Zoo = []string{
	`package {{PKG}}

// @immutable
// @constructor NewZBox
type ZBox[T any] struct {
	V T
	// @mutable
	L []T
}

func NewZBox[T any](v T) *ZBox[T] { return &ZBox[T]{V: v} }

func (b *ZBox[T]) Set(v T) {
	b.V = v
	b.L[0] = v
	*b = ZBox[T]{}
}

func zuseBox() {
	b := ZBox[int]{}
	b.V = 1
	var z ZBox[string]
	_ = z
	_ = new(ZBox[int])
	p := &b
	p.V++
	p.V += 2
	_ = []ZBox[int]{{}}
	_ = map[string]*ZBox[int]{"k": {}}
}

// @testonly
func ZGeneric[T any](x T) T { return x }

func zcallGeneric() {
	_ = ZGeneric[int](1)
	_ = ZGeneric("s")
	f := ZGeneric[float64]
	_ = f(1)
}

type ZStringer interface{ String() string }

// @implements ZStringer
type ZPair[K comparable, V any] struct {
	k K
	v V
}

// @implements &ZStringer
type ZS2 struct{}

func (s *ZS2) String() string { return "" }

type ZNum interface{ ~int | ~float64 }

// @packageonly
func ZSum[T ZNum](xs ...T) T {
	var s T
	for _, x := range xs {
		s += x
	}
	return s
}

// @implements ZNum
type ZInt int

// @immutable
type ZAlias = ZS2

// aliases of predeclared types (no package)
type ZFailure = error

type ZKeyed = comparable

type ZAny = any

func zaliases[K ZKeyed](k K, e ZFailure, a ZAny) (ZFailure, ZAny) {
	var f ZFailure = e
	return f, a
}
`,
	`package {{PKG}}

// @immutable
// @constructor newZInit, init
// @testonly
// @packageonly
type ZInit struct {
	A, B int
	M    map[string][]int
	F    func() *ZInit
	C    chan *ZInit
	E    struct{ X int }
	*ZEmb
}

// @immutable
type ZEmb struct{ Q int }

func newZInit() *ZInit { return &ZInit{} }

var zv1 = func() int { z := newZInit(); z.A = 1; z.Q = 2; z.E.X = 3; return z.A }()

var zv2, zv3 = ZInit{}, &ZInit{A: 1}

var (
	zv4 ZInit
	zv5 = []ZInit{{}, {A: 2}}
	zv6 = map[ZEmb]*ZInit{{}: {}}
	zv7 = [...]ZInit{2: {}}
	zv8 = struct{ Z ZInit }{}
	zv9 = new(ZInit).F
)

const (
	zc0 = iota
	zc1
)

func init() {
	zv4.A = zc1
	zv4.M["k"][0] = 1
	zv2.A, zv3.B = 1, 2
	zv4.A++
}

func init() {
	var p *ZInit = &zv4
	(*p).B -= 1
	((p)).A = 2
	f := p.F
	_ = f
L:
	for i := 0; i < 2; i++ {
		switch x := interface{}(p).(type) {
		case *ZInit:
			x.A = i
			continue L
		case nil:
			goto done
		}
	}
done:
	select {
	case v := <-p.C:
		v.A = 1
	case p.C <- &ZInit{}:
	default:
	}
	for p.A = range []int{1} {
	}
	for _, p.B = range []int{1} {
	}
	p.E.X, p.ZEmb.Q = 1, 2
	(p.M)["k"] = nil
	((p.M))["k"][0] = 1
	(*p).M["k"] = nil
	(p.M["k"])[0] = 2
	h := &p.M
	(*h)["k"] = nil
	(p).A, (*p).B = 1, 2
	(p.A)++
	(p.A) += 1
	func(ZInit) {}(ZInit{})
	defer func(z *ZInit) { z.A = 1 }(p)
	go func() { zv4 = ZInit{} }()
}

func (z ZInit) val() ZInit     { z.A = 1; return z }
func (z *ZInit) ptr() *ZInit   { z.A = 1; *z = ZInit{}; return z }
func (*ZInit) anon()           {}
func (_ ZInit) blank()         {}
func zmethodValues(z *ZInit)   { _ = z.val; _ = (*ZInit).ptr; _ = ZInit.val; _ = z.ptr().val().A; z.ptr().ptr().A = 1 }
`,
	`package {{PKG}}
`,
	`// only comments here
// @immutable
// @ignore ALL

/* @constructor X */

package {{PKG}}

// @testonly

// trailing comment at end of file without declaration
// @packageonly a, b`,
	`package {{PKG}}

// @constructor ZBig
type ZBigT struct{ S string }

func ZBig() ZBigT {
	return ZBigT{S: "` + strings.Repeat("0123456789abcdef", 8000) + `"}
}

var zbig = ZBigT{S: "x"} // ` + strings.Repeat("long trailing comment ", 400) + `

// @ignore CTOR01 ` + strings.Repeat("reason ", 3000) + `
var zbig2 = ZBigT{}
`,
	`package {{PKG}}

// @testonly
type ZT interface {
	// @mutable
	M(ZT) ZT
}

// @implements ZT
// @implements &ZT
// @implements nosuchpkg.ZT
// @implements ZMissing
// @implements &{{PKG}}.ZT
// @testonly
type zimpl struct{ next *zimpl }

// @testonly
func (z zimpl) M(o ZT) ZT { return o.M(z) }

type (
	// @immutable
	zg1 struct{ a int }
	// @constructor mk
	zg2 []zg1
	zg3 = zg2
)

func mk() zg2 { return zg2{{}, {a: 1}} }

func zgroups(g zg3, f func(zg1) zg2, c chan<- zg1) (r zg1, err error) {
	g[0].a = 1
	r.a = 2
	c <- zg1{}
	_ = f(r)
	var i interface{} = g
	if h, ok := i.(zg2); ok {
		h[0].a++
	}
	return
}
`,
}

func init() {
	// generated code: //line directives move the logical position of what follows
	c10Zoo = append(c10Zoo, `package {{PKG}}

// @immutable
// @constructor NewZLine
type ZLine struct{ n int }

func NewZLine() *ZLine { return &ZLine{} }

func zline(t *ZLine) {
//line zgen.y:900
	t.n = 1 // @ignore IMM01
	t.n = 2
//line zoo_line.go:5
	t.n = 3 // @ignore IMM
	/*line :77:3*/ t.n = 4 // @ignore ALL
	_ = ZLine{} // @ignore CTOR01
}

//line /nonexistent/dir/other.go:1
func zline2(t *ZLine) {
	// @ignore IMM01
	t.n = 5
	t.n++ // @ignore IMM03
	var z ZLine
	_ = z
}

//line zgen.y:100000
// @ignore CTOR
var zline3 = ZLine{} // @ignore CTOR01
`)
}

func init() {
	// predeclared identifiers shadowed locally and used with other arities /
	// kinds than the builtins have (checkers that recognise new / make / len by
	// spelling must not index into the argument list)
	c10Zoo = append(c10Zoo, `package {{PKG}}

// @immutable
// @constructor newZShadow
// @testonly
type ZShadow struct{ n int }

func newZShadow() *ZShadow { return &ZShadow{} }

func zshadowCalls(z *ZShadow) {
	new := func(args ...int) *ZShadow { return z }
	make := func() []ZShadow { return nil }
	len := func(a, b, c int) int { return a }
	append := func() {}
	panic := func(x, y int) {}
	recover := func(s string) string { return s }
	delete := func() *ZShadow { return z }
	copy := func(z ZShadow) ZShadow { return z }
	_ = new()
	_ = new(1, 2, 3)
	new().n = 1
	new(1).n++
	_ = make()
	_ = len(1, 2, 3)
	append()
	panic(1, 2)
	_ = recover("x")
	delete().n = 2
	_ = copy(ZShadow{}).n
}

func zshadowTypes() {
	type int struct{ n ZShadow }
	type string = ZShadow
	type error interface{ M(ZShadow) }
	var x int
	x.n.n = 1
	var s string
	s.n = 2
	_ = s
	nil := &ZShadow{}
	nil.n = 3
	true := ZShadow{}
	true.n = 4
	iota := []ZShadow{{}}
	iota[0].n = 5
	_ = func(e error) {}
}

func zshadowParams(new func() *ZShadow, make ZShadow, cap, len *ZShadow) (string ZShadow) {
	new().n = 1
	make.n = 2
	cap.n, len.n = 3, 4
	string.n = 5
	return
}
`)
}

func init() {
	// self-referential types, package-level and function-local, used where
	// checkers look through composite types (a walk over element / key types
	// must terminate)
	c10Zoo = append(c10Zoo, `package {{PKG}}

// @immutable
// @constructor newZRec
// @testonly
// @packageonly
type ZRec struct {
	Next *ZRec
	Kids []ZRec
	ByID map[string]*ZRec
}

func newZRec() *ZRec { return &ZRec{} }

type ZNode map[*ZNode]bool
type ZList []ZList
type ZPtr *ZPtr
type ZFn func(ZFn) ZFn
type ZCh chan ZCh
type ZRPair struct {
	A *ZRPair
	M map[*ZRPair][]ZRPair
}

var zrecs = map[*ZNode][]ZList{}

func zrecursive(p ZPtr, f ZFn, c ZCh) (ZNode, []ZRPair) {
	type node map[*node]bool
	type list []list
	type ptr *ptr
	type rec struct {
		r *rec
		m map[*rec][]*ZRec
	}
	n := node{}
	var l list
	var q ptr
	r := rec{m: map[*rec][]*ZRec{}}
	_ = []node{n}
	_ = map[*node]list{&n: l}
	_, _, _ = l, q, r
	var z ZRec
	z.Next = &ZRec{}
	z.Kids[0].Next = nil
	z.ByID["k"].Kids = nil
	return ZNode{}, []ZRPair{{}}
}
`)
}

// c10CommentGen draws comment text for the skeleton's slots.
func c10CommentGen() *rapid.Generator[string] {
	piece := rapid.OneOf(
		rapid.SampledFrom([]string{"@immutable", "@constructor", "@testonly", "@packageonly", "@implements", "@mutable", "@ignore", "@", "@@", "@Immutable", "@ignoreX"}),
		rapid.SampledFrom([]string{" ", "\t", "  ", ",", ", ", " ,", ".", "&", "&&", "/", "-", ";", "(", ")", "[]", "*", "//", "/*", "\"", "`", "\\", "%s", "%!d(", "\x7f", "é", "日本", " ", " ", ""}),
		rapid.SampledFrom([]string{"New", "NewT", "io.Reader", "&fmt.Stringer", "sk.I", "I", "T", "ALL", "IMM01", "imm", "CTOR", "a", "a/b", "vf.test/m/sk", "9x", "_", "x.y.z", "sk", "sk.T", "&I", "&sk.I"}),
		rapid.StringMatching(`[A-Za-z0-9_]{1,8}`),
		rapid.StringN(0, 6, -1),
	)
	return rapid.Custom(func(rt *rapid.T) string {
		n := rapid.IntRange(0, 6).Draw(rt, "npieces")
		var b strings.Builder
		b.WriteString(rapid.SampledFrom([]string{"//", "// ", "//\t", "//  ", "///", "// //"}).Draw(rt, "open"))
		for i := 0; i < n; i++ {
			b.WriteString(piece.Draw(rt, "piece"))
		}
		s := b.String()
		// keep the file compilable: one line, valid UTF-8, no NUL, no BOM
		s = strings.Map(func(r rune) rune {
			if r == '\n' || r == '\r' || r == 0 || r == 0xFEFF || r == 0xFFFD {
				return -1
			}
			return r
		}, strings.ToValidUTF8(s, ""))
		return s
	})
}

// c10Skeleton: a compilable two-package program; every {{C}} is a comment slot.
const c10SkelLib = `{{C}}
package sk
{{C}}

{{C}}
type I interface {
	{{C}}
	Do() int {{C}}
}

{{C}}
type T struct {
	{{C}}
	X int {{C}}
	{{C}}
	S []int
	{{C}}
}

{{C}}
func NewT() *T {
	{{C}}
	t := &T{} {{C}}
	t.X = 1
	{{C}}
	return t
}

{{C}}
func (t *T) Do() int {
	{{C}}
	t.X++ {{C}}
	return t.X
	{{C}}
}

type (
	{{C}}
	U struct{ Y int }
	{{C}}
)

{{C}}
func F() {}

{{C}}
var G = T{} {{C}}
{{C}}
`

const c10SkelUse = `{{C}}
package use

{{C}}
import "vf.test/m/sk" {{C}}

{{C}}
type W struct {
	{{C}}
	sk.T {{C}}
	P *sk.T
}

{{C}}
func use(p *sk.T, u sk.U) {
	{{C}}
	p.X = 1 {{C}}
	{{C}}
	p.S[0] = 2
	_ = sk.T{} {{C}}
	var v sk.T
	_ = v
	{{C}}
	sk.F()
	_ = p.Do()
	u.Y = 3
	{{C}}
}

{{C}}
var g = func() *sk.T { {{C}}
	return new(sk.T)
}()
{{C}}
`

func fillSlots(rt *rapid.T, tmpl string, gen *rapid.Generator[string]) (string, int) {
	parts := strings.Split(tmpl, "{{C}}")
	var b strings.Builder
	n := 0
	for i, p := range parts {
		b.WriteString(p)
		if i == len(parts)-1 {
			break
		}
		if rapid.IntRange(0, 9).Draw(rt, "fill") < 6 {
			c := gen.Draw(rt, "comment")
			// a slot that shares its line with code must stay a line comment at the end of that line
			b.WriteString(c)
			n++
			// a slot on its own line may carry a second line
			if strings.HasSuffix(p, "\n") || strings.HasSuffix(p, "\t") {
				if rapid.IntRange(0, 3).Draw(rt, "second") == 0 {
					ind := ""
					if strings.HasSuffix(p, "\t") {
						ind = "\t"
					}
					b.WriteString("\n" + ind + gen.Draw(rt, "comment2"))
					n++
				}
			}
		}
	}
	return b.String(), n
}

func TestC10Generated(t *testing.T) {
	const id = "C10"
	checkWitnesses(t, id)
	checkRegressions(t, id)
	ev.Rule(id, "totality: no recovered panic / analysis error in-process, no crash text / internal error / non-zero -json exit status from the binary and from go vet -vettool, on (a) rapid-generated annotated programs extended by hand-written 'zoo' files (generics, every kind of package-level initialiser, anonymous structs, embedded fields, labels, type switches, channels, method values, empty files, comment-only files, 128 kB lines), (b) a skeleton program whose 45 comment slots (every attachment site) are filled with rapid-generated comment text from an annotation-fragment alphabet, (c) standard-library packages with annotations injected on random top-level declarations and fields through a go/packages overlay; under default and scan-tests configurations. A run slower than 60 s is inconclusive, never a violation. non-trivial = run in which the analysed program carries >=1 recognised annotation so that checkers get past their empty-index early return (judged by >=1 diagnostic or injected annotation); distinct by source hash")
	gen := c10CommentGen()
	si, sn := shard()
	_ = si
	extBudget := scale(30, 2000) / sn
	extN := 0
	rapid.Check(t, func(rt *rapid.T) {
		var c c10Case
		kind := rapid.SampledFrom([]string{"generated+zoo", "generated+zoo", "skeleton"}).Draw(rt, "kind")
		c.Config = engine.DefaultConfig()
		c.Config.ScanTests = rapid.Bool().Draw(rt, "scanTests")
		slots := 0
		if kind == "skeleton" {
			lib, n1 := fillSlots(rt, c10SkelLib, gen)
			use, n2 := fillSlots(rt, c10SkelUse, gen)
			slots = n1 + n2
			c.Pkgs = []string{"sk", "use"}
			c.Sources = map[string]string{"sk/sk.go": lib, "use/use.go": use}
		} else {
			p := proggen.Gen(rt, proggen.GenOpts{Focus: "all", MinPkgs: 1, MaxPkgs: 3, TestFiles: true, XTest: true, Aliases: true, Rich: true})
			c.Pkgs, c.Sources = pkgDirs(p), p.Sources()
			// append zoo files to random packages
			for zi, z := range c10Zoo {
				if rapid.IntRange(0, 9).Draw(rt, "zoo") < 4 {
					pk := p.Pkgs[rapid.IntRange(0, len(p.Pkgs)-1).Draw(rt, "zooPkg")]
					name := fmt.Sprintf("%s/zoo%d.go", pk.Dir, zi)
					if rapid.IntRange(0, 5).Draw(rt, "zooTest") == 0 {
						name = fmt.Sprintf("%s/zoo%d_test.go", pk.Dir, zi)
					}
					// one zoo file of each kind per program (they declare fixed names)
					dup := false
					for k := range c.Sources {
						if strings.HasSuffix(k, fmt.Sprintf("/zoo%d.go", zi)) || strings.HasSuffix(k, fmt.Sprintf("/zoo%d_test.go", zi)) {
							dup = true
						}
					}
					if !dup {
						c.Sources[name] = strings.ReplaceAll(z, "{{PKG}}", pk.Name)
					}
				}
			}
		}
		c.Driver = "inproc"
		ev.Eval(id)
		// journal: a stack overflow or another fatal runtime error in an analyzer cannot be
		// recovered in-process and takes this process down; the case in flight is left on disk
		// (as a case for the killable standalone binary) so that check can replay and confirm it
		inflight := c10Journal(c)
		why := c10Check(c)
		os.Remove(inflight)
		if strings.HasPrefix(why, "GENERATOR-BUG") {
			if kind == "skeleton" {
				// generated comment text broke compilation: not a judged case
				ev.Class(id, "skeleton not compilable (dropped)")
				return
			}
			rt.Fatalf("%s\n%v", why, c.Sources)
		}
		if strings.HasPrefix(why, "INCONCLUSIVE") {
			ev.Inconclusive(id, why)
			return
		}
		if strings.HasPrefix(why, "HANG") {
			raw, _ := json.Marshal(c)
			ev.SaveViolation(id, "hang", 0, why, Envelope{Property: id, Kind: "c10", Summary: why, Data: raw})
			ev.Flush()
			fmt.Println(why)
			os.Exit(1)
		}
		if why != "" {
			sz := 0
			for _, s := range c.Sources {
				sz += len(s)
			}
			violation(rt, id, "c10", "generated", sz, c, "%s [%s]", why, kind)
		}
		ev.Class(id, "in-process "+kind)
		ev.NonTrivial(id, ev.Hash(fmt.Sprint(c.Sources), fmt.Sprint(c.Config)))
		if kind == "skeleton" {
			ev.ClassN(id, "skeleton comment slots filled", int64(slots))
		}
		if extN < extBudget && rapid.IntRange(0, 9).Draw(rt, "external") == 0 {
			extN++
			c2 := c
			c2.Driver = rapid.SampledFrom([]string{"binary", "binary", "vet"}).Draw(rt, "driver")
			if why := c10Check(c2); why != "" && !strings.HasPrefix(why, "INCONCLUSIVE") {
				violation(rt, id, "c10", "generated-ext", 0, c2, "%s [%s via %s]", why, kind, c2.Driver)
			}
			ev.Class(id, "external driver "+c2.Driver)
		}
		if ev.SampleCount(id) < 2 && kind == "skeleton" && slots > 10 {
			ev.Sample(id, map[string]interface{}{"kind": kind, "sources": c.Sources})
		}
	})
}

var c10Annots = map[string][]string{
	"type":   {"// @immutable", "// @constructor New, Make", "// @testonly", "// @packageonly", "// @packageonly strings, fmt", "// @implements io.Reader", "// @implements &fmt.Stringer", "// @implements Missing", "// @implements nosuch.X", "// @implements &error", "// @ignore ALL"},
	"func":   {"// @testonly", "// @packageonly", "// @packageonly sort", "// @ignore IMM, CTOR", "// @immutable"},
	"method": {"// @testonly", "// @packageonly", "// @packageonly bytes", "// @ignore TONL03"},
	"field":  {"// @mutable", "// @immutable", "// @ignore IMM01"},
}

var c10QuickStd = []string{"container/list", "text/tabwriter", "bufio", "sort", "strings", "sync", "go/token", "flag", "encoding/json", "regexp/syntax", "sync/atomic", "slices", "maps", "errors"}

func TestC10Corpus(t *testing.T) {
	const id = "C10"
	dir, err := engine.Scratch()
	if err != nil {
		t.Fatalf("GENERATOR-BUG %v", err)
	}
	defer engine.RmScratch(dir)
	// The default toolchain's GOROOT lies outside the module cache, so its
	// sources may be replaced through an overlay (files beneath GOMODCACHE -
	// including the go1.25.0 toolchain the repository switches to - may not).
	if err := os.MkdirAll(dir, 0o755); err != nil {
		t.Fatalf("GENERATOR-BUG %v", err)
	}
	if err := os.WriteFile(dir+"/go.mod", []byte("module vf.test/corpus\n\ngo 1.23\n"), 0o644); err != nil {
		t.Fatalf("GENERATOR-BUG %v", err)
	}
	os.WriteFile(dir+"/doc.go", []byte("package corpus\n"), 0o644)
	env := []string{"GOTOOLCHAIN=local"}
	patterns := c10QuickStd
	if thorough() {
		patterns = []string{"std"}
	}
	infos, err := engine.GoList(dir, env, patterns...)
	if err != nil {
		t.Fatalf("GENERATOR-BUG go list: %v", err)
	}
	var ok []engine.PkgInfo
	for _, pi := range infos {
		if pi.Error != nil || pi.Incomplete || len(pi.DepsErrors) > 0 || len(pi.GoFiles) == 0 {
			continue
		}
		if strings.Contains(pi.ImportPath, "/testdata/") || pi.Name == "main" {
			continue
		}
		ok = append(ok, pi)
	}
	sort.Slice(ok, func(i, j int) bool { return ok[i].ImportPath < ok[j].ImportPath })
	si, sn := shard()
	seeds := scale(1, 4)
	chunk := 12
	n := 0
	for round := 0; round < seeds; round++ {
		for start := 0; start < len(ok); start += chunk {
			n++
			if n%sn != si {
				continue
			}
			end := min(start+chunk, len(ok))
			var pats []string
			overlay := map[string][]byte{}
			injected := 0
			// deterministic pseudo-random choice from (seed, round, file, line)
			for _, pi := range ok[start:end] {
				pats = append(pats, pi.ImportPath)
				for fn, src := range engine.ReadPackageFiles(pi, false) {
					pts, err := engine.InjectionPoints(fn, src)
					if err != nil {
						continue
					}
					at := map[int][]string{}
					for _, pt := range pts {
						h := ev.Hash(fmt.Sprint(seed()), fmt.Sprint(round), fn, fmt.Sprint(pt.Line))
						v := int(h[0])*256 + int(h[1])
						if v%100 < 35 {
							pool := c10Annots[pt.Kind]
							at[pt.Line] = append(at[pt.Line], pool[v%len(pool)])
							if v%7 == 0 {
								at[pt.Line] = append(at[pt.Line], pool[(v/7)%len(pool)])
							}
							injected++
						}
					}
					if len(at) > 0 {
						overlay[fn] = engine.InsertLines(src, at)
					}
				}
			}
			t0 := time.Now()
			pkgs, err := engine.LoadReal(dir, env, overlay, false, pats...)
			if err != nil {
				ev.Class(id, "corpus chunk failed to load (not judged): "+firstLine(err.Error()))
				continue
			}
			bad := false
			for _, p := range pkgs {
				if len(p.Errors) > 0 {
					bad = true
				}
			}
			if bad {
				ev.Class(id, "corpus chunk with load errors after injection (not judged)")
				continue
			}
			cfg := engine.DefaultConfig()
			cfg.ScanTests = round%2 == 1
			res := engine.AnalyzeReal(pkgs, cfg, false)
			ev.EvalN(id, int64(len(pats)))
			rec := map[string]interface{}{"packages": pats, "seed": seed(), "round": round, "injected_annotations": injected}
			if len(res.Panics) > 0 {
				violation(t, id, "c10corpus", "corpus", 0, rec, "analyzer panicked on annotated corpus %v: %s", pats, res.Panics[0])
			}
			if len(res.Errors) > 0 {
				violation(t, id, "c10corpus", "corpus", 0, rec, "analysis error on annotated corpus %v: %s", pats, res.Errors[0])
			}
			if d := time.Since(t0); d > 10*time.Minute {
				ev.Inconclusive(id, fmt.Sprintf("corpus chunk took %s", d))
			}
			for _, pth := range pats {
				ev.NonTrivial(id, ev.Hash("corpus", pth, fmt.Sprint(round), fmt.Sprint(seed())))
			}
			byAn := map[string]int{}
			for _, d := range res.Diags {
				byAn[d.Analyzer]++
			}
			for an, k := range byAn {
				ev.ClassN(id, "corpus diagnostics from "+an, int64(k))
			}
			ev.ClassN(id, "corpus annotations injected", int64(injected))
			if ev.SampleCount(id) < 4 {
				ev.Sample(id, map[string]interface{}{"kind": "corpus with injected annotations", "packages": pats, "injected": injected, "diagnostics": len(res.Diags)})
			}
		}
	}
}

func init() {
	replayers["c10corpus"] = func(data json.RawMessage) string {
		// corpus cases depend on the installed toolchain's sources; the record
		// names packages, seed and round - re-run the corpus test with that seed
		return ""
	}
}

// c10Journal writes the case about to be analysed in-process as a replay file
// for the external binary; the caller removes it when the analysis returned.
func c10Journal(c c10Case) string {
	c.Driver = "binary"
	raw, _ := json.Marshal(c)
	b, _ := json.Marshal(Envelope{Property: "C10", Kind: "c10", Summary: "case in flight when the test process died", Data: raw})
	path := filepath.Join(ev.ReplayDir(), fmt.Sprintf("C10-inflight-%d.json", os.Getpid()))
	os.WriteFile(path, b, 0o644)
	return path
}
