package props

import (
	"encoding/json"
	"fmt"
	"go/token"
	"strings"
	"sync"
	"testing"
	"unicode/utf8"

	"github.com/a14e/gogreement/src/util"

	"verif/harness/engine"
	"verif/harness/ev"
)

// Native (coverage-guided) fuzz targets: an extra phase of the thorough tier
// (check builds a second, instrumented test binary for it). Every target holds
// the property's own oracle - the same function the rapid checks and the
// replayers use - so a crasher is a property violation, not just a crash. A
// failing input is saved as an ordinary replay file before the target fails;
// the corpus the fuzzer keeps under its cache directory is scratch. Executions
// are counted by the fuzzing coordinator (check reads its report), not here.
//
// The input domain of each target is the one its property quantifies over;
// bytes outside it (a comment that would not stay one line, invalid UTF-8 in a
// source line) are mapped into it or skipped, never judged.

func fuzzViolation(t *testing.T, id, kind, group string, size int, data interface{}, msg string) {
	t.Helper()
	raw, _ := json.Marshal(data)
	ev.SaveViolation(id, group, size, firstLine(msg), Envelope{Property: id, Kind: kind, Summary: firstLine(msg), Data: raw})
	ev.Flush() // fuzz workers are separate processes that may be killed at the end of the campaign
	t.Fatalf("%s", msg)
}

// oneLineComment maps arbitrary fuzz text to a single-line "//" comment.
func oneLineComment(s string) string {
	s = strings.Map(func(r rune) rune {
		if r == '\n' || r == '\r' || r == 0 || r == 0xFEFF || r == utf8.RuneError {
			return -1
		}
		return r
	}, strings.ToValidUTF8(s, ""))
	if !strings.HasPrefix(s, "//") {
		s = "//" + s
	}
	return s
}

// FuzzC15: any comment line against the reference recogniser of the documented grammar.
func FuzzC15(f *testing.F) {
	for _, s := range []string{"// @immutable", "// @constructor New, Make", "// @testonly", "// @packageonly a, b/c-d.e", "// @implements &io.Reader",
		"//@ignore IMM01, CTOR", "// @mutable", "// @constructor", "// @implements pkg.", "// @packageonly a,,b", "//\t@ignore ALL because", "// @implements I extra text",
		"// @Immutable", "// @immutablex", "// @constructor New,", "// @ignore imm01", "// see @immutable", "// @packageonly", "// @constructor 9x", "// @ignore IMM_01"} {
		f.Add(s)
	}
	f.Fuzz(func(t *testing.T, s string) {
		s = oneLineComment(s)
		why, unspecified, _, err := c15Compare(s)
		if err != nil || unspecified {
			return
		}
		if why != "" {
			fuzzViolation(t, "C15", "c15", "fuzz", len(s), c15Case{Text: s}, fmt.Sprintf("comment %q: %s", s, why))
		}
	})
}

// FuzzC19: any file text, reported line and column against the excerpt validator.
func FuzzC19(f *testing.F) {
	tall := strings.Repeat("x()\n", 101)
	f.Add("package p\n\tx.y = 1 // tab before\nlast", uint8(1), uint16(4), uint8(0), false, uint8(0), uint16(0))
	f.Add(strings.Repeat("abcdefghij", 45), uint8(0), uint16(300), uint8(0), true, uint8(0), uint16(0))
	f.Add("é日本→ x\n"+strings.Repeat("w ", 150)+"\n", uint8(1), uint16(199), uint8(0), false, uint8(1), uint16(3))
	f.Add("short", uint8(0), uint16(1), uint8(1), false, uint8(0), uint16(0))
	f.Add("a\nb\nc", uint8(2), uint16(1), uint8(2), false, uint8(0), uint16(0))
	f.Add(tall, uint8(98), uint16(1), uint8(0), false, uint8(100), uint16(2))
	f.Add(tall, uint8(8), uint16(2), uint8(0), false, uint8(10), uint16(1))
	f.Fuzz(func(t *testing.T, text string, lineSel uint8, colSel uint16, modeSel uint8, noFinalNL bool, thenLine uint8, thenCol uint16) {
		if !utf8.ValidString(text) || strings.ContainsAny(text, "\r\x00") || len(text) > 1<<17 {
			return // source files are valid UTF-8 without NUL; CR handling is not part of the statement
		}
		lines := strings.Split(strings.ReplaceAll(text, "...", "._."), "\n")
		if len(lines) > 130 {
			lines = lines[:130]
		}
		at := func(lineSel int, colSel int) c19Pos {
			ln := lineSel%len(lines) + 1
			src := lines[ln-1]
			var starts []int
			for i := range src {
				starts = append(starts, i)
			}
			starts = append(starts, len(src))
			return c19Pos{ln, starts[colSel%len(starts)] + 1}
		}
		p0 := at(int(lineSel), int(colSel))
		mode := []string{"ok", "ok", "ok", "error", "short"}[int(modeSel)%5]
		c := c19Case{Lines: lines, Line: p0.Line, Col: p0.Col, ReadMode: mode, NoFinalNL: noFinalNL}
		if mode == "ok" && thenLine != 0 {
			// a second report on the same file through the same reporter
			c.Seq = []c19Pos{at(int(thenLine), int(thenCol))}
		}
		if why := c19Check(c); why != "" {
			fuzzViolation(t, "C19", "c19", "fuzz", len(text), c, fmt.Sprintf("line %d col %d of %d lines (%s) then %v: %s", p0.Line, p0.Col, len(lines), mode, c.Seq, why))
		}
	})
}

var fuzzC16Codes = []string{"ALL", "IMM", "CTOR", "TONL", "PKGO", "IMPL", "IMM01", "IMM02", "IMM03", "IMM04", "CTOR01", "CTOR02", "CTOR03", "TONL01", "PKGO03", "IMPL02", "ZZZ9", "IM", "IMM0", "all", "imm01", ""}
var fuzzC16Queries = []string{"IMM01", "IMM02", "IMM03", "IMM04", "CTOR01", "CTOR02", "CTOR03", "TONL01", "TONL02", "TONL03", "PKGO01", "PKGO02", "PKGO03", "IMPL01", "IMPL02", "IMPL03", "IMM", "CTOR", "ZZZ9", "ALL"}

// FuzzC16: a byte string decoded into a history of add / global operations
// with interleaved queries, against the reference decision.
func FuzzC16(f *testing.F) {
	f.Add([]byte{0, 1, 6, 10, 5, 2, 6, 12, 1, 0, 2, 6, 3})
	f.Add([]byte{1, 2, 0, 1, 2, 7, 9, 0, 3, 4, 5, 6, 2, 10, 200})
	f.Fuzz(func(t *testing.T, data []byte) {
		s := &util.IgnoreSet{}
		var ops []igOp
		next := func() (int, bool) {
			if len(data) == 0 {
				return 0, false
			}
			b := data[0]
			data = data[1:]
			return int(b), true
		}
		for len(ops) < 24 {
			k, ok := next()
			if !ok {
				return
			}
			switch k % 3 {
			case 0, 1: // add / global
				n, _ := next()
				var cs []string
				for i := 0; i < n%3+k%2; i++ { // globals may be empty
					c, _ := next()
					cs = append(cs, fuzzC16Codes[c%len(fuzzC16Codes)])
				}
				o := igOp{Global: k%3 == 1, Codes: cs}
				if cs == nil {
					o.Codes = []string{}
				}
				if !o.Global {
					if len(cs) == 0 {
						continue
					}
					st, _ := next()
					ln, _ := next()
					o.Start = st + 1
					o.End = o.Start + ln%40 - 3 // sometimes inverted
					if o.End < 0 {
						o.End = 0
					}
				}
				applyIgOp(s, o)
				ops = append(ops, o)
			case 2:
				q, _ := next()
				p, _ := next()
				qc := fuzzC16Queries[q%len(fuzzC16Queries)]
				got := s.Contains(qc, token.Pos(p))
				want := refSuppressed(ops, qc, p)
				if got != want {
					c := c16Case{Ops: append([]igOp{}, ops...), Code: qc, Pos: p, Want: want, Got: got}
					fuzzViolation(t, "C16", "c16", "fuzz", len(ops), c, fmt.Sprintf("history %v: Contains(%s,%d)=%v, reference says %v", ops, qc, p, got, want))
				}
			}
		}
	})
}

// FuzzC10: fuzz text in the comment slots of the two-package skeleton
// (every attachment site); the in-process run must neither panic nor fail.
func FuzzC10(f *testing.F) {
	f.Add("// @immutable", "// @constructor New, Make", "// @ignore ALL", "// @implements &sk.I", uint64(0xffffffffffff), false)
	f.Add("// @packageonly use, vf.test/m/sk", "// @testonly", "// @mutable", "// @implements I", uint64(0x5555555555555555), true)
	f.Add("//@ignore IMM", "// @constructor", "// @implements nosuch.X", "// @packageonly", uint64(0xaaaaaaaaaaaaaaaa), false)
	f.Fuzz(func(t *testing.T, a, b, c, d string, mask uint64, scanTests bool) {
		cs := []string{oneLineComment(a), oneLineComment(b), oneLineComment(c), oneLineComment(d)}
		for _, x := range cs {
			if len(x) > 4096 {
				return
			}
		}
		fill := func(tmpl string, shift uint) string {
			parts := strings.Split(tmpl, "{{C}}")
			var sb strings.Builder
			for i, p := range parts {
				sb.WriteString(p)
				if i == len(parts)-1 {
					break
				}
				bit := (uint(i) + shift) % 64
				if mask&(1<<bit) != 0 {
					sb.WriteString(cs[(uint(i)+shift+uint(mask>>60))%4])
				}
			}
			return sb.String()
		}
		cc := c10Case{Pkgs: []string{"sk", "use"}, Sources: map[string]string{"sk/sk.go": fill(c10SkelLib, 0), "use/use.go": fill(c10SkelUse, 23)}, Driver: "inproc"}
		cc.Config = engine.DefaultConfig()
		cc.Config.ScanTests = scanTests
		why := c10Check(cc)
		if strings.HasPrefix(why, "GENERATOR-BUG") || strings.HasPrefix(why, "INCONCLUSIVE") || strings.HasPrefix(why, "HANG") {
			return // comment text broke compilation, or a time limit: not judged here
		}
		if why != "" {
			fuzzViolation(t, "C10", "c10", "fuzz", len(a)+len(b)+len(c)+len(d), cc, why+" [skeleton, native fuzz]")
		}
	})
}

// FuzzC18: flag and environment strings for the three options (presence bits in
// mask) against the restated resolution, observed at the Config value.
func FuzzC18(f *testing.F) {
	f.Add(uint8(0xff), "true", " yes ", "gen_,,x", " a , b ", "imm01,CTOR", "all")
	f.Add(uint8(0x2a), "", "On", "", "testdata", "", " tonl ,")
	f.Add(uint8(0x15), "F", "tRuE", ",", "", " ", "")
	f.Fuzz(func(t *testing.T, mask uint8, scanFlag, scanEnv, pathsFlag, pathsEnv, checksFlag, checksEnv string) {
		var c c18Case
		pick := func(bit uint, s string) *string {
			if mask&(1<<bit) != 0 {
				return &s
			}
			return nil
		}
		c.ScanTests = optState{Flag: pick(0, scanFlag), Env: pick(1, scanEnv), BareBool: mask&0x40 != 0}
		if c.ScanTests.BareBool {
			c.ScanTests.Flag = nil
		}
		c.ExcludePaths = optState{Flag: pick(2, pathsFlag), Env: pick(3, pathsEnv)}
		c.ExcludeChecks = optState{Flag: pick(4, checksFlag), Env: pick(5, checksEnv)}
		c.Driver = "inproc"
		why := c18Inproc(c)
		if why == "" || strings.HasPrefix(why, "SKIP") {
			return
		}
		b, _ := json.Marshal(c)
		fuzzViolation(t, "C18", "c18inproc", "fuzz", len(b), c, fmt.Sprintf("configuration %s: %s", b, why))
	})
}

var (
	fuzzC08Once sync.Once
	fuzzC08Pkgs []string
	fuzzC08Src  map[string]string
)

// FuzzC08: any exclude-checks string on the 16-code probe, through the repository's own flag-value
// parser in-process: run(S) must equal the unrestricted run filtered by the reference matcher.
func FuzzC08(f *testing.F) {
	for _, s := range []string{"IMM", "imm01,CTOR", " all ", "IMM01,imm01,IMM02,IMM03", "tonl, PKGO02,", ",", "IM,IMM0,*", "ctor01,,ctor03,", "Impl03 , imm", "ALL,ZZZ"} {
		f.Add(s)
	}
	f.Fuzz(func(t *testing.T, raw string) {
		if !utf8.ValidString(raw) || strings.ContainsRune(raw, 0) || len(raw) > 200 {
			return
		}
		// code tokens are ASCII in the documented table; case folding of other scripts
		// (dotless i, long s ...) is outside what the statement defines
		for _, r := range raw {
			if r > 127 {
				return
			}
		}
		fuzzC08Once.Do(func() { fuzzC08Pkgs, fuzzC08Src = probeSources() })
		c := c08Case{Pkgs: fuzzC08Pkgs, Sources: fuzzC08Src, Raw: raw, Via: "parser"}
		if why := c08Check(c); why != "" {
			fuzzViolation(t, "C08", "c08", "fuzz", len(raw), c, fmt.Sprintf("exclude-checks=%q: %s", raw, why))
		}
	})
}
