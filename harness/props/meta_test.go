package props

import (
	"encoding/json"
	"fmt"
	"path"
	"regexp"
	"sort"
	"strconv"
	"strings"

	"verif/harness/engine"
	"verif/harness/proggen"
)

// metaCase: two programs (A = base, B = transformed) whose diagnostics must be
// related. Mode "same": equal (site tag, code) sets, and for the once-per-file
// codes TONL01/PKGO01 equal (using package dir, code, type name) sets.
type metaCase struct {
	PkgsA    []string          `json:"pkgs_a"`
	A        map[string]string `json:"a"`
	PkgsB    []string          `json:"pkgs_b"`
	B        map[string]string `json:"b"`
	ConfigA  engine.Config     `json:"config_a"`
	ConfigB  engine.Config     `json:"config_b"`
	Mode     string            `json:"mode"`
	MaxTagA  int               `json:"max_tag_a,omitempty"` // tags above this exist only in B and are not compared
	Prefixes []string          `json:"prefixes,omitempty"`
	Note     string            `json:"note,omitempty"`
}

var tonl01Re = regexp.MustCompile(`type (\w+) is marked @testonly`)
var pkgo01Re = regexp.MustCompile(`\] (\w+) type is @packageonly`)

var tagLineRe = regexp.MustCompile(`(?://|/\*) s(\d+)\b`)

// siteKeys maps diagnostics to layout-independent keys.
// lineDirRe: a //line directive written by the harness. It renames the rest of
// the file to zz_<name> so that adjusted positions are recognisable.
// (written with a column, //line name:N:1: without one go/token reports column 0 for every later
// position and inline tags of one-line pairs could no longer be told apart)
var lineDirRe = regexp.MustCompile(`^//line (zz_[^:\s]+):(\d+)(?::\d+)?$`)

// unshiftDiags maps diagnostics reported at //line-adjusted positions back to
// the physical lines of the file that holds the directive.
func unshiftDiags(sources map[string]string, diags []engine.Diag) []engine.Diag {
	type dir struct {
		real string
		l, n int
	}
	m := map[string]dir{}
	for file, src := range sources {
		if !strings.Contains(src, "//line zz_") {
			continue
		}
		for i, l := range strings.Split(src, "\n") {
			if mm := lineDirRe.FindStringSubmatch(l); mm != nil {
				n, _ := strconv.Atoi(mm[2])
				m[path.Join(path.Dir(file), mm[1])] = dir{file, i + 1, n}
			}
		}
	}
	if len(m) == 0 {
		return diags
	}
	out := append([]engine.Diag{}, diags...)
	for i, d := range out {
		if x, ok := m[d.File]; ok {
			out[i].File, out[i].Line = x.real, d.Line-x.n+x.l+1
		}
	}
	return out
}

func siteKeys(sources map[string]string, diags []engine.Diag, maxTag int, prefixes []string, oncePerFileBySite bool) map[string]bool {
	diags = unshiftDiags(sources, diags)
	out := map[string]bool{}
	counts := map[string]int{}
	seen := map[string]bool{}
	lines := map[string][]string{}
	for k, v := range sources {
		lines[k] = strings.Split(v, "\n")
	}
	defer func() {
		// a statement carrying the same code several times (x.a, x.b = 1, 2)
		for k, n := range counts {
			if n > 1 {
				delete(out, k)
				out[fmt.Sprintf("%s (x%d)", k, n)] = true
			}
		}
	}()
	_ = seen
	for _, d := range engine.CollapseVariants(diags) {
		if len(prefixes) > 0 {
			ok := false
			for _, p := range prefixes {
				if strings.HasPrefix(d.Code, p) {
					ok = true
				}
			}
			if !ok {
				continue
			}
		}
		if !oncePerFileBySite && (d.Code == "TONL01" || d.Code == "PKGO01") {
			name := ""
			if m := tonl01Re.FindStringSubmatch(d.Message); m != nil {
				name = m[1]
			} else if m := pkgo01Re.FindStringSubmatch(d.Message); m != nil {
				name = m[1]
			}
			out[fmt.Sprintf("pkg %s: %s %s", path.Dir(d.File), d.Code, name)] = true
			continue
		}
		ls := lines[d.File]
		tag := ""
		if id := proggen.TagAtCol(ls, d.Line, d.Col); id != 0 {
			tag = fmt.Sprint(id)
		}
		if tag == "" {
			out[fmt.Sprintf("untagged line in %s: %s %q", path.Dir(d.File), d.Code, strings.TrimSpace(safeLine(ls, d.Line)))] = true
			continue
		}
		var n int
		fmt.Sscanf(tag, "%d", &n)
		if maxTag > 0 && n > maxTag {
			continue
		}
		out["s"+tag+" "+d.Code] = true
		counts["s"+tag+" "+d.Code]++
	}
	return out
}

func safeLine(ls []string, n int) string {
	if n >= 1 && n <= len(ls) {
		return ls[n-1]
	}
	return ""
}

func diffSets(a, b map[string]bool, na, nb string) string {
	var d []string
	for k := range a {
		if !b[k] {
			d = append(d, "only "+na+": "+k)
		}
	}
	for k := range b {
		if !a[k] {
			d = append(d, "only "+nb+": "+k)
		}
	}
	sort.Strings(d)
	return strings.Join(d, "; ")
}

func runMeta(c metaCase) string {
	ra, _, err := engine.RunInproc(enginePkgs(c.PkgsA, c.A), c.ConfigA, engine.Options{Sequential: true})
	if err != nil {
		return "load A: " + err.Error()
	}
	rb, _, err := engine.RunInproc(enginePkgs(c.PkgsB, c.B), c.ConfigB, engine.Options{Sequential: true})
	if err != nil {
		return "load B: " + err.Error()
	}
	if len(ra.Panics) > 0 {
		return "panic on A: " + ra.Panics[0]
	}
	if len(rb.Panics) > 0 {
		return "panic on B: " + rb.Panics[0]
	}
	switch c.Mode {
	case "same":
		ka := siteKeys(c.A, ra.Diags, c.MaxTagA, c.Prefixes, false)
		kb := siteKeys(c.B, rb.Diags, c.MaxTagA, c.Prefixes, false)
		return diffSets(ka, kb, "base", "transformed")
	case "same-sites":
		ka := siteKeys(c.A, ra.Diags, c.MaxTagA, c.Prefixes, true)
		kb := siteKeys(c.B, rb.Diags, c.MaxTagA, c.Prefixes, true)
		return diffSets(ka, kb, "base", "transformed")
	}
	return "unknown mode " + c.Mode
}

func init() {
	replayers["meta"] = func(data json.RawMessage) string {
		var c metaCase
		if err := json.Unmarshal(data, &c); err != nil {
			return "bad replay: " + err.Error()
		}
		return runMeta(c)
	}
}

// mustTypeCheck aborts with a generator-bug (exit 2) if p does not type-check.
func loadOrBug(t fataler, id string, p *proggen.Prog, cfg engine.Config) *engine.Result {
	res, ld, err := engine.RunInproc(p.ToEngine(), cfg, engine.Options{Sequential: true})
	if err != nil {
		generatorBug(t, id, p, []string{err.Error()})
	}
	if len(ld.TypeErrs) > 0 {
		generatorBug(t, id, p, ld.TypeErrs)
	}
	return res
}
