package props

import (
	"encoding/json"
	"errors"
	"fmt"
	"go/token"
	"regexp"
	"strconv"
	"strings"
	"testing"
	"unicode/utf8"

	"golang.org/x/tools/go/analysis"
	"pgregory.net/rapid"

	"github.com/a14e/gogreement/src/reporting"

	"verif/harness/ev"
)

const c19Limit = 200 // documented display limit (restated, not read from the code)

type c19Case struct {
	Lines     []string `json:"lines"`     // file content, one entry per line
	Line      int      `json:"line"`      // 1-based reported line
	Col       int      `json:"col"`       // 1-based reported byte column
	ReadMode  string   `json:"read_mode"` // ok | error | short
	NoFinalNL bool     `json:"no_final_newline,omitempty"`
	// further violations of the same file reported through the same Reporter
	// after the first one (the reporter keeps per-file state between reports)
	Seq []c19Pos `json:"then,omitempty"`
}

type c19Pos struct {
	Line int `json:"line"`
	Col  int `json:"col"`
}

type c19Viol struct {
	pos token.Pos
}

func (v c19Viol) GetCode() string    { return "IMM01" }
func (v c19Viol) GetPos() token.Pos  { return v.pos }
func (v c19Viol) GetMessage() string { return "synthetic violation" }

// c19Render runs the real reporter on the case and returns the message.
func c19Render(c c19Case) (all []string, panicked string) {
	defer func() {
		if r := recover(); r != nil {
			panicked = fmt.Sprint(r)
		}
	}()
	content := strings.Join(c.Lines, "\n")
	if !c.NoFinalNL || c.Lines[len(c.Lines)-1] == "" {
		content += "\n"
	}
	fset := token.NewFileSet()
	f := fset.AddFile("/vfroot/w/x.go", -1, len(content))
	f.SetLinesForContent([]byte(content))
	var msgs []string
	pass := &analysis.Pass{
		Fset:   fset,
		Report: func(d analysis.Diagnostic) { msgs = append(msgs, d.Message) },
		ReadFile: func(name string) ([]byte, error) {
			switch c.ReadMode {
			case "error":
				return nil, errors.New("unreadable")
			case "short":
				// the file on disk has fewer lines than the position says
				n := c.Line - 1
				if n > len(c.Lines) {
					n = len(c.Lines)
				}
				if n < 0 {
					n = 0
				}
				return []byte(strings.Join(c.Lines[:n], "\n")), nil
			}
			return []byte(content), nil
		},
	}
	rep := reporting.NewReporter(pass, nil)
	for i, p := range append([]c19Pos{{c.Line, c.Col}}, c.Seq...) {
		ls := f.LineStart(p.Line)
		pos := token.Pos(int(ls) + p.Col - 1)
		rep.ReportViolation(c19Viol{pos})
		if len(msgs) != i+1 {
			return nil, fmt.Sprintf("expected exactly one reported diagnostic per violation, got %d after %d", len(msgs), i+1)
		}
	}
	return msgs, ""
}

var c19LineRe = regexp.MustCompile(`^\s*(\d+) \| (.*)$`)
var c19CaretRe = regexp.MustCompile(`^(\s*) \| ([ \t]*)\^$`)

// c19Validate is the validity predicate over the rendered message.
// It returns "" if the message is acceptable.
func c19Validate(c c19Case, msg string) string {
	if !strings.HasPrefix(msg, "error: [IMM01] synthetic violation\n") {
		return fmt.Sprintf("header malformed: %q", firstLine(msg))
	}
	rest := strings.TrimPrefix(msg, "error: [IMM01] synthetic violation\n")
	return c19ValidateExcerpt(c, rest)
}

// c19ValidateExcerpt judges the part of a message after its header line(s).
func c19ValidateExcerpt(c c19Case, rest string) string {
	if c.ReadMode == "error" {
		if rest != "" {
			return fmt.Sprintf("file unreadable but message carries more than the header: %q", rest)
		}
		return ""
	}
	if c.ReadMode == "short" {
		// The file on disk ends before the reported line. Accepted: no excerpt
		// at all, or only context lines that really are the preceding lines
		// of the file on disk; never a line numbered like the diagnostic and
		// never a caret.
		for _, ol := range strings.Split(strings.TrimSuffix(rest, "\n"), "\n") {
			if m := c19LineRe.FindStringSubmatch(ol); m != nil {
				n, _ := strconv.Atoi(m[1])
				if n >= c.Line || n < 1 || n < c.Line-2 {
					return fmt.Sprintf("short file: excerpt shows line %d for a diagnostic on line %d beyond the end of the file", n, c.Line)
				}
				if _, _, why := c19Window(c.Lines[n-1], m[2], -1); why != "" {
					return fmt.Sprintf("short file: context line %d: %s", n, why)
				}
			} else if c19CaretRe.MatchString(ol) {
				return "short file: caret printed although the reported line does not exist on disk"
			}
		}
		return ""
	}
	outLines := strings.Split(strings.TrimSuffix(rest, "\n"), "\n")
	shown := map[int]string{}
	caretPrefix := ""
	caretSeen := 0
	caretAfter := 0
	lastNum := 0
	textStart := map[int]int{} // excerpt row -> byte offset at which the source text starts
	caretTextStart := -1
	for _, ol := range outLines {
		if m := c19LineRe.FindStringSubmatch(ol); m != nil {
			n, _ := strconv.Atoi(m[1])
			if _, dup := shown[n]; dup {
				return fmt.Sprintf("line %d shown twice", n)
			}
			shown[n] = m[2]
			textStart[n] = len(ol) - len(m[2])
			lastNum = n
			continue
		}
		if m := c19CaretRe.FindStringSubmatch(ol); m != nil {
			caretSeen++
			caretPrefix = m[2]
			caretAfter = lastNum
			caretTextStart = len(ol) - len(m[2]) - 1
		}
	}
	// the caret row's margin must be as wide as the margin of the row it points
	// into: "under the character" is about absolute columns
	if ts, ok := textStart[c.Line]; ok && caretSeen == 1 && caretTextStart != ts {
		return fmt.Sprintf("caret row margin is %d wide, the margin of line %d is %d wide: the caret is shifted by %d", caretTextStart, c.Line, ts, caretTextStart-ts)
	}
	if _, ok := shown[c.Line]; !ok {
		return fmt.Sprintf("no excerpt line numbered %d in message", c.Line)
	}
	if caretSeen != 1 || caretAfter != c.Line {
		return fmt.Sprintf("expected exactly one caret line directly under line %d (saw %d, after line %d)", c.Line, caretSeen, caretAfter)
	}
	// context: exactly the neighbouring lines n-2..n+1 that exist
	for n := c.Line - 2; n <= c.Line+1; n++ {
		_, have := shown[n]
		exists := n >= 1 && n <= len(c.Lines)
		if have != exists {
			return fmt.Sprintf("context line %d: shown=%v, exists in file=%v", n, have, exists)
		}
	}
	if len(shown) > 4 {
		return fmt.Sprintf("%d excerpt lines shown, expected at most 4", len(shown))
	}
	for n, s := range shown {
		src := c.Lines[n-1]
		if n != c.Line {
			if _, _, why := c19Window(src, s, -1); why != "" {
				return fmt.Sprintf("context line %d: %s", n, why)
			}
			continue
		}
		colByte := c.Col - 1
		if colByte >= len(src) {
			// column = len+1: nothing to stand under; only boundedness is judged
			if _, _, why := c19Window(src, s, -1); why != "" {
				return fmt.Sprintf("error line %d (col past end): %s", n, why)
			}
			continue
		}
		wins, why := c19Windows(src, s, colByte)
		if why != "" {
			return fmt.Sprintf("error line %d: %s", n, why)
		}
		// byte index of the reported character inside the shown string; a line
		// with repeated substrings admits several placements of the window:
		// the caret must agree with one of them
		gotCell := utf8.RuneCountInString(caretPrefix)
		wantCell, okCell := 0, c19PlacementExplainsCaret(src, s, colByte, gotCell)
		for i, w := range wins {
			inShown := colByte - w.off
			if w.lead {
				inShown += 3
			}
			cell := utf8.RuneCountInString(s[:inShown])
			if i == 0 {
				wantCell = cell
			}
			if cell == gotCell {
				okCell = true
			}
		}
		if !okCell {
			return fmt.Sprintf("caret at cell %d, reported character %q is at cell %d of the shown line", gotCell, src[colByte], wantCell)
		}
		// tabs before the caret must be reproduced at the same cells
		sr := []rune(s)
		for i, r := range []rune(caretPrefix) {
			isTab := i < len(sr) && sr[i] == '\t'
			if (r == '\t') != isTab {
				return fmt.Sprintf("caret prefix cell %d is %q but shown line has %q there (tab alignment lost)", i, r, sr[i])
			}
		}
	}
	return ""
}

// c19Window checks that shown is the source line itself (short lines) or a
// contiguous window of it marked with "..." exactly on the cut sides, bounded
// by limit + markers, and (if mustContain >= 0) containing that byte offset.
// Returns the offset of the window in src and whether a leading marker exists.
func c19Window(src, shown string, mustContain int) (off int, lead bool, why string) {
	ws, why := c19Windows(src, shown, mustContain)
	if why != "" {
		return 0, false, why
	}
	return ws[0].off, ws[0].lead, ""
}

// c19PlacementExplainsCaret: is there a placement of the shown window in the
// source line (with markers exactly on the cut sides, within the display
// bound) under which the reported byte stands at cell `cell` of the shown
// text? The placement is derived from the caret, so repetitive lines cost nothing.
func c19PlacementExplainsCaret(src, shown string, colByte, cell int) bool {
	rs := []rune(shown)
	if cell < 0 || cell >= len(rs) {
		return false
	}
	inShown := len(string(rs[:cell]))
	for _, cd := range []struct{ lead, trail bool }{{false, true}, {true, false}, {true, true}, {false, false}} {
		w := shown
		shift := 0
		markers := 0
		if cd.lead {
			if !strings.HasPrefix(w, "...") {
				continue
			}
			w, shift = w[3:], 3
			markers++
		}
		if cd.trail {
			if !strings.HasSuffix(w, "...") {
				continue
			}
			w = w[:len(w)-3]
			markers++
		}
		o := colByte - (inShown - shift)
		if len(w) == 0 || o < 0 || o+len(w) > len(src) || src[o:o+len(w)] != w {
			continue
		}
		if cd.lead == (o == 0) || cd.trail == (o+len(w) == len(src)) {
			continue
		}
		if !(o <= colByte && colByte < o+len(w)) || utf8.RuneCountInString(shown) > c19Limit+3*markers {
			continue
		}
		return true
	}
	return false
}

type c19Win struct {
	off  int
	lead bool
}

// c19Windows returns every placement of the shown text in the source line
// that explains it (a line with repeated substrings has several).
func c19Windows(src, shown string, mustContain int) (all []c19Win, why string) {
	if len(src) <= c19Limit {
		if shown != src {
			return nil, fmt.Sprintf("line of %d bytes (<= limit) not shown verbatim: %q", len(src), clip(shown))
		}
		return []c19Win{{0, false}}, ""
	}
	if shown == src && utf8.RuneCountInString(src) <= c19Limit {
		// no more than limit characters although more than limit bytes:
		// showing it verbatim respects the display limit
		return []c19Win{{0, false}}, ""
	}
	if utf8.ValidString(src) && !utf8.ValidString(shown) {
		return nil, fmt.Sprintf("shown text cuts a multi-byte character in half: %q", clip(shown))
	}
	return c19WindowsCut(src, shown, mustContain)
}

func c19WindowsCut(src, shown string, mustContain int) (all []c19Win, why string) {
	// try the four marker combinations; accept if any explains the output
	type cand struct{ lead, trail bool }
	var reasons []string
	for _, cd := range []cand{{false, true}, {true, false}, {true, true}, {false, false}} {
		w := shown
		if cd.lead {
			if !strings.HasPrefix(w, "...") {
				continue
			}
			w = w[3:]
		}
		if cd.trail {
			if !strings.HasSuffix(w, "...") {
				continue
			}
			w = w[:len(w)-3]
		}
		markers := 0
		if cd.lead {
			markers++
		}
		if cd.trail {
			markers++
		}
		// every occurrence of w in src
		for from := 0; from <= len(src)-len(w); {
			i := strings.Index(src[from:], w)
			if i < 0 {
				break
			}
			o := from + i
			from = o + 1
			startsAt0 := o == 0
			endsAtEnd := o+len(w) == len(src)
			if cd.lead == startsAt0 || cd.trail == endsAtEnd {
				reasons = append(reasons, "markers do not match cut sides")
				continue
			}
			if mustContain >= 0 && !(o <= mustContain && mustContain < o+len(w)) {
				reasons = append(reasons, fmt.Sprintf("window [%d,%d) does not contain reported byte %d", o, o+len(w), mustContain))
				continue
			}
			if n := utf8.RuneCountInString(shown); n > c19Limit+3*markers {
				reasons = append(reasons, fmt.Sprintf("shown length %d characters exceeds limit %d + %d markers", n, c19Limit, markers))
				continue
			}
			if len(w) == 0 {
				reasons = append(reasons, "empty window")
				continue
			}
			all = append(all, c19Win{o, cd.lead})
			if len(all) >= 64 {
				return all, ""
			}
		}
	}
	if len(all) > 0 {
		return all, ""
	}
	if len(reasons) == 0 {
		reasons = append(reasons, "shown text is not a window of the source line")
	}
	return nil, fmt.Sprintf("%s (source %d bytes, shown %q)", reasons[0], len(src), clip(shown))
}

func clip(s string) string {
	if len(s) > 80 {
		return s[:40] + "~" + s[len(s)-40:]
	}
	return s
}

func c19Check(c c19Case) string {
	msgs, p := c19Render(c)
	if p != "" {
		return "panic/failure: " + p
	}
	for i, pos := range append([]c19Pos{{c.Line, c.Col}}, c.Seq...) {
		ci := c
		ci.Line, ci.Col, ci.Seq = pos.Line, pos.Col, nil
		if why := c19Validate(ci, msgs[i]); why != "" {
			if i > 0 {
				return fmt.Sprintf("report %d of %d on the same file (line %d col %d): %s", i+1, len(msgs), pos.Line, pos.Col, why)
			}
			return why
		}
	}
	return ""
}

func init() {
	replayers["c19"] = func(data json.RawMessage) string {
		var c c19Case
		if err := json.Unmarshal(data, &c); err != nil {
			return "bad replay: " + err.Error()
		}
		return c19Check(c)
	}
}

// encLine returns a line of n bytes in which every >=8-byte substring is unique.
func encLine(n int, salt byte) string {
	var b strings.Builder
	for i := 0; b.Len() < n; i++ {
		b.WriteString(fmt.Sprintf("%c%03x", 'g'+salt%16, i))
	}
	return b.String()[:n]
}

// TestC19Exhaustive: every line length 0..3*limit x every column 1..len+1,
// for the error line in the middle, first and last position of a file.
func TestC19Exhaustive(t *testing.T) {
	const id = "C19"
	checkWitnesses(t, id)
	checkRegressions(t, id)
	ev.Rule(id, "exhaustive: line length 0..3*limit x column 1..len+1 with position-encoded ASCII content (every >=8-byte substring unique) at file positions {middle, first, last line}; rapid: lines with tabs and multi-byte runes, long lines up to 100kB, unreadable/short files. Oracle = validity predicate (window of the right source line, ellipses exactly on cut sides, length <= limit+markers, caret cell = cell of reported byte, tabs mirrored, context = neighbouring lines). non-trivial = line longer than the limit, or tab/multi-byte rune before the column; distinct (length,column,placement) triples counted by construction, rapid cases by hash")
	ev.Assume(id, "cells = runes (no double-width runes generated); column is the byte column of token.Position")
	si, sn := shard()
	maxLen := 3 * c19Limit
	var evals, nontriv int64
	for n := 0; n <= maxLen; n++ {
		if n%sn != si {
			continue
		}
		for _, place := range []string{"middle", "first", "last"} {
			if place != "middle" && n%7 != 0 && n < c19Limit-5 {
				continue // placements other than middle only sampled for short lines
			}
			var lines []string
			var ln int
			switch place {
			case "middle":
				lines = []string{encLine(250, 1), encLine(3, 2), encLine(n, 0), encLine(400, 3), "tail"}
				ln = 3
			case "first":
				lines = []string{encLine(n, 0), encLine(220, 3)}
				ln = 1
			case "last":
				lines = []string{"a", encLine(210, 4), encLine(n, 0)}
				ln = 3
			}
			for col := 1; col <= n+1; col++ {
				c := c19Case{Lines: lines, Line: ln, Col: col, ReadMode: "ok", NoFinalNL: place == "last" && n%2 == 0}
				evals++
				if n > c19Limit {
					nontriv++
					if col >= c19Limit-4 && col <= c19Limit+2 {
						ev.Class(id, "boundary_col_near_limit")
					}
					if col >= n-c19Limit && col <= n-c19Limit+7 {
						ev.Class(id, "boundary_col_near_len-limit")
					}
				}
				if why := c19Check(c); why != "" {
					violation(t, id, "c19", "exhaustive", n*1000+col, c, "len=%d col=%d place=%s: %s", n, col, place, why)
				}
				if ev.SampleCount(id) < 3 && n > c19Limit && col == n/2+si {
					msgs, _ := c19Render(c)
					ev.Sample(id, map[string]interface{}{"line_len": n, "col": col, "place": place, "message": strings.Join(msgs, "\n")})
				}
			}
		}
	}
	// tall file: every reported line around the digit-count boundaries of the
	// line-number margin (9|10, 99|100, 999|1000) x columns 1..4, alone and
	// followed by a second report at distance -2..+2 through the same reporter
	if si == 0 {
		var tall []string
		for i := 1; i <= 1003; i++ {
			tall = append(tall, fmt.Sprintf("x%d := %d", i, i))
		}
		var tallN int64
		for _, ln := range []int{1, 2, 3, 7, 8, 9, 10, 11, 12, 97, 98, 99, 100, 101, 102, 997, 998, 999, 1000, 1001, 1002, 1003} {
			for col := 1; col <= 4; col++ {
				for d := -3; d <= 2; d++ {
					c := c19Case{Lines: tall, Line: ln, Col: col, ReadMode: "ok"}
					if d != -3 {
						l2 := ln + d
						if l2 < 1 || l2 > len(tall) {
							continue
						}
						c.Seq = []c19Pos{{l2, 1 + (col % 3)}}
					}
					tallN++
					if why := c19Check(c); why != "" {
						violation(t, id, "c19", "tall", ln, c, "tall file line=%d col=%d then=%v: %s", ln, col, c.Seq, why)
					}
				}
			}
		}
		evals += tallN
		nontriv += tallN
		ev.ClassN(id, "tall_file_margin_boundaries_and_report_pairs", tallN)
	}
	ev.EvalN(id, evals)
	ev.DistinctN(id, nontriv)
	ev.ClassN(id, "exhaustive_cases", evals)
	ev.Exhaustive(id, true)
}

func TestC19Rapid(t *testing.T) {
	const id = "C19"
	seg := rapid.OneOf(
		rapid.StringMatching(`[a-z]{1,12}`),
		rapid.Just("\t"),
		rapid.Just("\t\t"),
		rapid.SampledFrom([]string{"é", "ж", "→", "日本", "ü"}),
		rapid.Just(" "),
		rapid.StringMatching(`[A-Z0-9_(){}=+;]{1,6}`),
	)
	lineGen := rapid.Custom(func(rt *rapid.T) string {
		mode := rapid.IntRange(0, 9).Draw(rt, "mode")
		var target int
		switch {
		case mode < 3:
			target = rapid.IntRange(0, 60).Draw(rt, "short")
		case mode < 8:
			target = rapid.IntRange(150, 700).Draw(rt, "mid")
		case mode < 9:
			target = rapid.IntRange(180, 215).Draw(rt, "nearLimit")
		default:
			target = rapid.IntRange(5000, 100000).Draw(rt, "huge")
		}
		var b strings.Builder
		if target >= 5000 {
			// bulk filler with a few interesting segments
			b.WriteString(encLine(target/2, 5))
			for i := 0; i < 6; i++ {
				b.WriteString(seg.Draw(rt, "seg"))
			}
			b.WriteString(encLine(target/2, 6))
			return b.String()
		}
		for b.Len() < target {
			b.WriteString(seg.Draw(rt, "seg"))
		}
		return strings.ReplaceAll(b.String(), "...", "._.")
	})
	rapid.Check(t, func(rt *rapid.T) {
		nl := rapid.IntRange(1, 6).Draw(rt, "nlines")
		var lines []string
		for i := 0; i < nl; i++ {
			lines = append(lines, lineGen.Draw(rt, "line"))
		}
		// sometimes the interesting lines sit deep in a tall file (wider line-number margin)
		if rapid.IntRange(0, 9).Draw(rt, "tall") < 2 {
			pad := rapid.SampledFrom([]int{3, 4, 5, 6, 7, 8, 9, 93, 94, 95, 96, 97, 98, 99, 993, 994, 995, 996, 997, 998, 999}).Draw(rt, "pad")
			var padded []string
			for i := 0; i < pad; i++ {
				padded = append(padded, fmt.Sprintf("p%d()", i))
			}
			lines = append(padded, lines...)
			nl = len(lines)
			ev.Class(id, "rapid_tall_file")
		}
		ln := rapid.IntRange(max(1, nl-5), nl).Draw(rt, "errline")
		src := lines[ln-1]
		// column: any rune start in the line, or len+1
		var starts []int
		for i := range src {
			starts = append(starts, i)
		}
		starts = append(starts, len(src))
		col := starts[rapid.IntRange(0, len(starts)-1).Draw(rt, "colidx")] + 1
		mode := rapid.SampledFrom([]string{"ok", "ok", "ok", "ok", "ok", "ok", "error", "short"}).Draw(rt, "read")
		c := c19Case{Lines: lines, Line: ln, Col: col, ReadMode: mode, NoFinalNL: rapid.Bool().Draw(rt, "nofinalnl")}
		// further reports on the same file through the same reporter (it keeps per-file state)
		if mode == "ok" && rapid.IntRange(0, 9).Draw(rt, "sequence") < 4 {
			for k, n := 0, rapid.IntRange(1, 4).Draw(rt, "nthen"); k < n; k++ {
				l2 := rapid.IntRange(1, nl).Draw(rt, "thenLine")
				if rapid.Bool().Draw(rt, "near") {
					l2 = ln + rapid.IntRange(-2, 2).Draw(rt, "delta")
					if l2 < 1 || l2 > nl {
						l2 = ln
					}
				}
				var st []int
				for i := range lines[l2-1] {
					st = append(st, i)
				}
				st = append(st, len(lines[l2-1]))
				c.Seq = append(c.Seq, c19Pos{l2, st[rapid.IntRange(0, len(st)-1).Draw(rt, "thenCol")] + 1})
			}
			ev.Class(id, "rapid_several_reports_one_reporter")
		}
		ev.Eval(id)
		before := src[:min(col-1, len(src))]
		hasTab := strings.Contains(before, "\t")
		hasMB := len(before) != utf8.RuneCountInString(before)
		if mode == "ok" && (len(src) > c19Limit || hasTab || hasMB) {
			ev.NonTrivial(id, ev.Hash(strings.Join(lines, "\n"), fmt.Sprint(ln, col)))
		}
		if hasTab {
			ev.Class(id, "rapid_tab_before_col")
		}
		if hasMB {
			ev.Class(id, "rapid_multibyte_before_col")
		}
		if len(src) > c19Limit {
			ev.Class(id, "rapid_long_line")
		}
		if len(src) >= 5000 {
			ev.Class(id, "rapid_huge_line")
		}
		ev.Class(id, "rapid_read_"+mode)
		if hasMB && shapeExcluded("c19-multibyte") {
			ev.Class(id, "excluded_known_multibyte")
			return
		}
		if why := c19Check(c); why != "" {
			sz := 0
			for _, l := range lines {
				sz += len(l)
			}
			violation(rt, id, "c19", "rapid", sz, c, "line %d col %d (len %d, read=%s): %s", ln, col, len(src), mode, why)
		}
		if ev.SampleCount(id) < 6 && (hasTab || hasMB) && len(src) < 300 && mode == "ok" {
			msgs, _ := c19Render(c)
			ev.Sample(id, map[string]interface{}{"lines": lines, "line": ln, "col": col, "then": c.Seq, "messages": msgs})
		}
	})
}
