package props

import (
	"fmt"
	"strings"
	"testing"

	"pgregory.net/rapid"

	"verif/harness/engine"
	"verif/harness/ev"
	"verif/harness/proggen"
)

// exactCheck is shared by C01..C04: generate a program with the given focus,
// run the real analyzers in-process, compare the diagnostics of one category
// with the model's expectation.
type exactSpec struct {
	id       string
	focus    string
	prefix   string
	expect   func(*proggen.Prog, engine.Config) *proggen.Expect
	nontriv  func(*proggen.Prog, *proggen.Expect) bool
	classify func(id string, p *proggen.Prog, e *proggen.Expect)
	rule     string
}

func exactProperty(t *testing.T, sp exactSpec) {
	id := sp.id
	checkWitnesses(t, id)
	checkRegressions(t, id)
	ev.Rule(id, sp.rule)
	binEvery := 60
	n := 0
	rapid.Check(t, func(rt *rapid.T) {
		// a fifth of the programs is analysed with scan-tests on: in-package and
		// external test files are then analysed files like any other
		cfg := engine.DefaultConfig()
		if rapid.IntRange(0, 9).Draw(rt, "scanTests") < 2 {
			cfg.ScanTests = true
			ev.Class(id, "analysed with scan-tests on")
		}
		opts := proggen.GenOpts{Focus: sp.focus, MinPkgs: 1, MaxPkgs: 4, TestFiles: true, XTest: true, Aliases: true}
		if rapid.IntRange(0, 9).Draw(rt, "rich") < 3 {
			opts.Rich = true
		}
		p := proggen.Gen(rt, opts)
		res, ld, err := engine.RunInproc(p.ToEngine(), cfg, engine.Options{Sequential: true})
		if err != nil {
			generatorBug(rt, id, p, []string{err.Error()})
		}
		if len(ld.TypeErrs) > 0 {
			generatorBug(rt, id, p, ld.TypeErrs)
		}
		ev.Eval(id)
		n++
		e := sp.expect(p, cfg)
		must, may, oneOf := expectKeys(p, e)
		c := progCase{Pkgs: pkgDirs(p), Sources: p.Sources(), Config: cfg, Prefixes: []string{sp.prefix}, Must: must, May: may, OneOf: oneOf}
		if len(res.Panics) > 0 {
			if shapeExcluded("panic-tolerated-" + id) {
				return
			}
			violation(rt, id, "prog", "exact", p.Size(), c, "analyzer panicked: %s", res.Panics[0])
		}
		if len(res.Errors) > 0 {
			violation(rt, id, "prog", "exact", p.Size(), c, "analysis error: %s", res.Errors[0])
		}
		mm := proggen.Compare(p, res.Diags, e, sp.prefix)
		if len(mm) > 0 {
			var ss []string
			for _, m := range mm {
				ss = append(ss, m.String())
			}
			violation(rt, id, "prog", "exact", p.Size(), c, "%s: tool and model disagree: %s", id, strings.Join(ss, "; "))
		}
		if sp.nontriv(p, e) {
			ev.NonTrivial(id, ev.Hash(fmt.Sprint(c.Sources)))
		}
		sp.classify(id, p, e)
		if n%binEvery == 7 && engine.BinPath() != "" {
			if why := crossCheckBinary(p, cfg, res.Diags, sp.prefix); why != "" {
				violation(rt, id, "prog", "exact-bin", p.Size(), c, "standalone binary disagrees with in-process driver: %s", why)
			}
			ev.Class(id, "also_through_binary")
		}
		if ev.SampleCount(id) < 3 && e.Count() >= 2 && p.Size() < 140 {
			ev.Sample(id, sampleProg(p, map[string]interface{}{"expected": must, "tolerated_open_shapes": may}))
		}
	})
}

// crossCheckBinary runs the program through the real binary and compares the
// category's keys with the in-process result.
func crossCheckBinary(p *proggen.Prog, cfg engine.Config, inproc []engine.Diag, prefix string) string {
	dir, err := engine.Scratch()
	if err != nil {
		return ""
	}
	defer engine.RmScratch(dir)
	if err := engine.WriteToDisk(p.ToEngine(), dir); err != nil {
		return ""
	}
	var flags []string
	if cfg.ScanTests {
		flags = []string{"--config.scan-tests"}
	}
	pr := engine.RunBinary(dir, flags, nil, "./...")
	if len(pr.Panics) > 0 {
		return "binary crashed: " + pr.Panics[0]
	}
	a := engine.KeySet(inproc, prefix)
	b := engine.KeySet(pr.Diags, prefix)
	var diff []string
	for k := range a {
		if !b[k] {
			diff = append(diff, "only in-process: "+k)
		}
	}
	for k := range b {
		if !a[k] {
			diff = append(diff, "only binary: "+k)
		}
	}
	if len(diff) > 0 {
		return strings.Join(diff, "; ") + " stderr=" + firstLine(pr.Stderr)
	}
	return ""
}

func TestC01(t *testing.T) {
	exactProperty(t, exactSpec{
		id: "C01", focus: "imm", prefix: "IMM", expect: proggen.ExpectIMM,
		rule: "rapid-generated multi-package programs (1-4 packages, types with any mix of @immutable/@constructor/@mutable (+@testonly/@packageonly in 30%), write/read sites of every listed kind in functions, methods, constructors, package-level initialiser closures, nested in if/for/switch/select/closure/defer/go/block, any file and declaration order); oracle = model rule reported(code) <=> type @immutable and visible (same package or direct import) and field not @mutable and not inside a listed constructor function of the type's own package; compared as (site,code) sets restricted to IMM*. non-trivial = program with >=1 expected IMM diagnostic and >=1 negative site on an immutable type (mutable field, constructor, read); distinct by source hash",
		nontriv: func(p *proggen.Prog, e *proggen.Expect) bool {
			if e.Count() == 0 {
				return false
			}
			neg := false
			p.Walk(func(si proggen.SiteInfo) {
				for _, evn := range si.Site.Events() {
					if evn.Cat == "IMM" && evn.Type.Immutable && !e.Must[si.Site.ID][evn.Code] {
						neg = true
					}
				}
				if strings.HasPrefix(si.Site.Kind, "read.") && si.Site.Type != nil && si.Site.Type.Immutable {
					neg = true
				}
			})
			return neg
		},
		classify: func(id string, p *proggen.Prog, e *proggen.Expect) {
			for _, td := range p.AllTypes() {
				if td.DefOf != nil && td.Immutable != td.DefOf.Immutable {
					ev.Class(id, "program with type D T where exactly one of D, T is @immutable")
				}
			}
			p.Walk(func(si proggen.SiteInfo) {
				for _, evn := range si.Site.Events() {
					if evn.Cat != "IMM" {
						continue
					}
					verdict := "silent"
					if e.Must[si.Site.ID][evn.Code] {
						verdict = "reported"
					} else if e.May[si.Site.ID][evn.Code] {
						verdict = "open"
					}
					where := "same"
					if evn.Type.Pkg != si.Ctx.Pkg {
						where = "imported"
					}
					ev.Class(id, fmt.Sprintf("site %s %s %s in %s", evn.Code, verdict, where, containerOf(si, evn.Type)))
					ev.Class(id, "wrap "+wrapsShort(si.Ctx.Wraps))
					if evn.RecvForm {
						ev.Class(id, "receiver-form "+verdict)
					}
				}
			})
		},
	})
}
