package props

import (
	"sort"
	"strings"

	"verif/harness/engine"
	"verif/harness/proggen"
)

// probeProgram is a fixed two-package module with exactly one diagnostic of
// each of the 16 documented codes (package u), all on tagged lines, plus
// planted violations in an in-package test file, a testdata directory and a
// file whose name carries the token "gen_" (for configuration properties).
func probeSources() ([]string, map[string]string) {
	d := `package d

// @immutable
// @constructor NewT
type T struct {
	X int
	S []int
}

func NewT() *T {
	return &T{}
}

// @testonly
type M struct {
	Y int
}

// @testonly
func Helper() {}

// @testonly
func (t *T) Reset() {}

// @packageonly d
type P struct {
	Z int
}

// @packageonly d
func Only() {}

// @packageonly d
func (p *P) Do() {}

type I interface {
	Foo(int) string
}
`
	u := `package u

import "vf.test/m/d"

func imm(p *d.T) {
	p.X = 1 // s1
	p.X += 2 // s2
	p.X++ // s3
	p.S[0] = 1 // s4
}

func ctor() {
	_ = d.T{} // s5
	_ = new(d.T) // s6
	var v d.T // s7
	_ = v
}

func tonl(p *d.T) {
	_ = d.M{} // s8
	d.Helper() // s9
	p.Reset() // s10
}

func pkgo(
	q *d.P, // s11
) {
	d.Only() // s12
	q.Do() // s13
}

// @implements nosuch.I
type A struct{} // s14

// @implements d.Missing
type B struct{} // s15

// @implements d.I
type C struct{} // s16
`
	utest := `package u

import "vf.test/m/d"

func inTest(p *d.T) {
	p.X = 7 // s20
	_ = d.T{} // s21
}
`
	ugen := `package u

import "vf.test/m/d"

func generated(p *d.T) {
	p.X = 8 // s30
}
`
	tdq := `package q

import "vf.test/m/d"

func inTestdata(p *d.T) {
	p.X = 9 // s40
}
`
	vend := `package r

import "vf.test/m/d"

func inVendorx(p *d.T) {
	p.X = 10 // s50
}
`
	return []string{"d", "u", "testdata/q", "vendorx/r"}, map[string]string{
		"d/d.go": d, "u/u.go": u, "u/u_test.go": utest, "u/gen_z.go": ugen, "testdata/q/q.go": tdq, "vendorx/r/r.go": vend,
	}
}

// nestedProbeSources is a second fixed module in which diagnostics of different
// codes are nested inside one expression: a literal in the argument list of a
// reported call, chained reported calls, a reported write inside the index
// expression of another reported write.
func nestedProbeSources() ([]string, map[string]string) {
	d2 := `package d2

// @immutable
// @constructor NewT
type T struct {
	X int
	S []int
}

func NewT() *T { return &T{} }

// @testonly
type M struct{ Y int }

// @testonly
func Take(m M) *M { return &m }

// @testonly
func NewM() *M { return &M{} }

// @testonly
func (m *M) Reset() *M { return m }

// @packageonly d2
type P struct{ Z int }

// @packageonly d2
func Give(p P) *P { return &p }

// @packageonly d2
func (p *P) Do() *P { return p }
`
	w := `package w

import "vf.test/m/d2"

func nested(p *d2.T) {
	d2.Take(d2.M{}) // s1
	d2.NewM().Reset().Reset() // s2
	d2.Give(d2.P{}).Do().Do() // s3
	p.S[func() int { p.X++; return 0 }()] = 1 // s4
	p.X, _ = func() (int, *d2.T) { p.X += 2; return 1, &d2.T{} }() // s5
	_ = []*d2.T{{}, new(d2.T)} // s6
}
`
	return []string{"d2", "w"}, map[string]string{"d2/d2.go": d2, "w/w.go": w}
}

// probeExpectedCodes: site tag -> code for the 16 per-code sites.
var probeCodeOf = map[int]string{
	1: "IMM01", 2: "IMM02", 3: "IMM03", 4: "IMM04", 5: "CTOR01", 6: "CTOR02", 7: "CTOR03",
	8: "TONL01", 9: "TONL02", 10: "TONL03", 11: "PKGO01", 12: "PKGO02", 13: "PKGO03",
	14: "IMPL01", 15: "IMPL02", 16: "IMPL03",
	20: "IMM01", 21: "CTOR01", 30: "IMM01", 40: "IMM01", 50: "IMM01",
}

func probeProgram() *engine.Program {
	pkgs, src := probeSources()
	return enginePkgs(pkgs, src)
}

// probeKeys converts diagnostics on the probe to "sN CODE" keys.
func probeKeys(src map[string]string, ds []engine.Diag) map[string]bool {
	return siteKeys(src, ds, 0, nil, true)
}

// refSkipFile is the reference skip predicate (restated from the docs):
// suffix _test.go unless scan-tests; absolute path contains an exclude token.
func refSkipFile(absPath string, scanTests bool, excludePaths []string) bool {
	for _, tok := range excludePaths {
		if tok != "" && strings.Contains(absPath, tok) {
			return true
		}
	}
	return !scanTests && strings.HasSuffix(absPath, "_test.go")
}

// probeExpected computes the expected "sN CODE" set under a resolved configuration.
// root is the absolute directory the module lives in.
func probeExpected(root string, scanTests bool, excludePaths, excludeChecks []string) map[string]bool {
	fileOf := func(tag int) string {
		switch {
		case tag >= 50:
			return "vendorx/r/r.go"
		case tag >= 40:
			return "testdata/q/q.go"
		case tag >= 30:
			return "u/gen_z.go"
		case tag >= 20:
			return "u/u_test.go"
		}
		return "u/u.go"
	}
	// annotations of d are read only if d/d.go itself is analysed
	if refSkipFile(root+"/d/d.go", scanTests, excludePaths) {
		// only IMPL01 (unknown qualifier) needs no foreign annotation
		out := map[string]bool{}
		for tag, code := range probeCodeOf {
			if tag >= 14 && tag <= 16 && !refSkipFile(root+"/u/u.go", scanTests, excludePaths) && !refExcluded(excludeChecks, code) {
				out[sKey(tag, code)] = true
			}
		}
		return out
	}
	out := map[string]bool{}
	for tag, code := range probeCodeOf {
		if refSkipFile(root+"/"+fileOf(tag), scanTests, excludePaths) {
			continue
		}
		if refExcluded(excludeChecks, code) {
			continue
		}
		out[sKey(tag, code)] = true
	}
	return out
}

func sKey(tag int, code string) string { return "s" + itoa(tag) + " " + code }

func itoa(n int) string {
	if n == 0 {
		return "0"
	}
	var b []byte
	for n > 0 {
		b = append([]byte{byte('0' + n%10)}, b...)
		n /= 10
	}
	return string(b)
}

// refExcluded: reference for exclude-checks (tokens already trimmed/upper-cased).
func refExcluded(tokens []string, code string) bool {
	for _, t := range tokens {
		if refTokenMatches(t, code) {
			return true
		}
	}
	return false
}

// refParseList is the reference for list options: split on commas, trim,
// drop empty items, optionally upper-case.
func refParseList(s string, upper bool) []string {
	out := []string{}
	for _, part := range strings.Split(s, ",") {
		part = strings.TrimSpace(part)
		if part == "" {
			continue
		}
		if upper {
			part = strings.ToUpper(part)
		}
		out = append(out, part)
	}
	return out
}

func sortedSet(m map[string]bool) []string {
	var s []string
	for k := range m {
		s = append(s, k)
	}
	sort.Strings(s)
	return s
}

var _ = proggen.Module
