package props

import (
	"encoding/json"
	"fmt"
	"os"
	"path/filepath"
	"sort"
	"strings"
	"testing"

	"pgregory.net/rapid"

	"verif/harness/engine"
	"verif/harness/ev"
	"verif/harness/proggen"
)

// c09Case: sources without annotations + configuration; must yield no diagnostic.
type c09Case struct {
	Pkgs    []string          `json:"pkgs"`
	Sources map[string]string `json:"sources"`
	Config  engine.Config     `json:"config"`
}

func c09Check(c c09Case) string {
	res, _, err := engine.RunInproc(enginePkgs(c.Pkgs, c.Sources), c.Config, engine.Options{Sequential: true})
	if err != nil {
		return "load: " + err.Error()
	}
	if len(res.Panics) > 0 {
		return "panic: " + res.Panics[0]
	}
	if len(res.Diags) > 0 {
		var s []string
		for _, d := range res.Diags {
			s = append(s, fmt.Sprintf("%s:%d %s %q", d.File, d.Line, d.Code, srcLine(c.Sources, d)))
		}
		sort.Strings(s)
		return "diagnostics on a program without annotations: " + strings.Join(s, "; ")
	}
	return ""
}

func srcLine(src map[string]string, d engine.Diag) string {
	ls := strings.Split(src[d.File], "\n")
	if d.Line >= 1 && d.Line <= len(ls) {
		return strings.TrimSpace(ls[d.Line-1])
	}
	return ""
}

func init() {
	replayers["c09"] = func(data json.RawMessage) string {
		var c c09Case
		if err := json.Unmarshal(data, &c); err != nil {
			return "bad replay: " + err.Error()
		}
		return c09Check(c)
	}
}

func c09Configs(rt *rapid.T) engine.Config {
	cfg := engine.Config{ScanTests: rapid.Bool().Draw(rt, "scanTests")}
	switch rapid.IntRange(0, 2).Draw(rt, "paths") {
	case 0:
		cfg.ExcludePaths = []string{"testdata"}
	case 1:
		cfg.ExcludePaths = []string{}
	case 2:
		cfg.ExcludePaths = []string{"f1"}
	}
	if rapid.IntRange(0, 3).Draw(rt, "checks") == 0 {
		cfg.ExcludeChecks = []string{rapid.SampledFrom([]string{"IMM", "CTOR01", "TONL", "ZZZ"}).Draw(rt, "ec")}
	}
	return cfg
}

// TestC09Generated: generated programs rich in the shapes the checkers look
// at, with no annotation, salted with near-miss comments.
func TestC09Generated(t *testing.T) {
	const id = "C09"
	checkWitnesses(t, id)
	checkRegressions(t, id)
	ev.Rule(id, "(a) real-world corpora that load offline (standard library packages; thorough: all of std plus the repository's dependencies in the module cache) after an independent precondition filter (go/parser scan: no comment line matching ^//\\s*@(implements|constructor|immutable|testonly|mutable|packageonly|ignore)\\b), run through the real binary under {default, scan-tests, empty exclude-paths}; (b) rapid-generated multi-package programs with every site family and NO annotation, salted with near-miss comments (keyword mid-sentence, other letter case, keyword as prefix of a longer word, blank after @, block comments, @constructor without names, well-formed annotation lines at inert attachment sites: trailing comments, comments detached by a blank line, local declarations, package-level var docs, struct fields of unannotated types, annotations that mean nothing on a function) under random configurations. oracle = zero diagnostics from every analyzer. non-trivial = package/program with >=1 field write, >=1 composite literal and >=1 method call, and for (b) >=1 near-miss comment; distinct by import path / source hash")
	rapid.Check(t, func(rt *rapid.T) {
		p := proggen.Gen(rt, proggen.GenOpts{Focus: "none", MinPkgs: 1, MaxPkgs: 3, TestFiles: true, XTest: true, Aliases: true})
		info := proggen.SaltNearMiss(rt, p)
		p.Render()
		cfg := c09Configs(rt)
		res := loadOrBug(rt, id, p, cfg)
		_ = res
		src := p.Sources()
		c := c09Case{Pkgs: pkgDirs(p), Sources: src, Config: cfg}
		ev.Eval(id)
		if why := c09Check(c); why != "" {
			violation(rt, id, "c09", "generated", p.Size(), c, "%s", why)
		}
		writes, lits, calls := 0, 0, 0
		p.Walk(func(si proggen.SiteInfo) {
			switch {
			case strings.HasPrefix(si.Site.Kind, "imm."):
				writes++
			case si.Site.Kind == "lit" || si.Site.Kind == "litptr" || strings.HasPrefix(si.Site.Kind, "elided"):
				lits++
			case si.Site.Kind == "mcall" || si.Site.Kind == "call":
				calls++
			}
		})
		salted := info.DocNearMiss + info.Trailing + info.Detached + info.Local + info.FieldDoc + info.VarDoc
		if writes > 0 && lits > 0 && calls > 0 && salted > 0 {
			ev.NonTrivial(id, ev.Hash(fmt.Sprint(src)))
		}
		ev.ClassN(id, "near-miss: malformed doc comment", int64(info.DocNearMiss))
		ev.ClassN(id, "near-miss: well-formed as trailing comment", int64(info.Trailing))
		ev.ClassN(id, "near-miss: well-formed, detached by blank line", int64(info.Detached))
		ev.ClassN(id, "near-miss: well-formed on local declaration", int64(info.Local))
		ev.ClassN(id, "near-miss: well-formed on field of unannotated struct", int64(info.FieldDoc))
		ev.ClassN(id, "near-miss: well-formed on package-level var", int64(info.VarDoc))
		if ev.SampleCount(id) < 2 && salted >= 4 && p.Size() < 120 {
			ev.Sample(id, map[string]interface{}{"kind": "generated", "config": cfg, "sources": src})
		}
	})
}

// std packages for the quick tier (a spread of styles; all load offline).
var c09QuickStd = []string{"bytes", "strings", "sort", "container/list", "container/heap", "bufio", "text/tabwriter", "encoding/json", "encoding/binary", "go/ast", "go/token", "go/scanner", "flag", "sync", "time", "math/big", "regexp/syntax", "path/filepath", "text/template/parse", "archive/tar", "compress/flate", "net/url", "html", "unicode/utf8", "errors", "io", "fmt", "strconv", "hash/crc32", "image/color"}

func corpusModule(dir string) error {
	if err := os.MkdirAll(dir, 0o755); err != nil {
		return err
	}
	// requirements copied from the repository, so its dependencies resolve from the module cache
	repoMod, err := os.ReadFile("/repo/go.mod")
	if err != nil {
		return err
	}
	lines := strings.Split(string(repoMod), "\n")
	lines[0] = "module vf.test/corpus"
	if err := os.WriteFile(filepath.Join(dir, "go.mod"), []byte(strings.Join(lines, "\n")), 0o644); err != nil {
		return err
	}
	sum, _ := os.ReadFile("/repo/go.sum")
	if err := os.WriteFile(filepath.Join(dir, "go.sum"), sum, 0o644); err != nil {
		return err
	}
	return os.WriteFile(filepath.Join(dir, "doc.go"), []byte("package corpus\n"), 0o644)
}

// TestC09Corpus: unannotated real-world packages through the real binary.
func TestC09Corpus(t *testing.T) {
	const id = "C09"
	if engine.BinPath() == "" {
		t.Fatalf("GENERATOR-BUG no binary")
	}
	dir, err := engine.Scratch()
	if err != nil {
		t.Fatalf("GENERATOR-BUG %v", err)
	}
	defer engine.RmScratch(dir)
	if err := corpusModule(dir); err != nil {
		t.Fatalf("GENERATOR-BUG %v", err)
	}
	toolchain := []string{"GOTOOLCHAIN=auto"} // the corpus module says go 1.25 like the repository
	patterns := c09QuickStd
	if thorough() {
		patterns = []string{"std", "golang.org/x/tools/go/...", "golang.org/x/tools/internal/...", "golang.org/x/mod/...", "golang.org/x/sync/...", "github.com/stretchr/testify/...", "gopkg.in/yaml.v3", "github.com/cloudflare/ahocorasick", "github.com/davecgh/go-spew/...", "github.com/pmezard/go-difflib/..."}
	}
	infos, err := engine.GoList(dir, toolchain, patterns...)
	if err != nil {
		t.Fatalf("GENERATOR-BUG go list: %v", err)
	}
	var roots []string
	dropped, broken := 0, 0
	shape := map[string]engine.PkgShape{}
	for _, pi := range infos {
		if pi.Error != nil || pi.Incomplete || len(pi.DepsErrors) > 0 || len(pi.GoFiles) == 0 || pi.Name == "main" && !pi.Standard {
			broken++
			continue
		}
		sh := engine.ScanPackage(pi.Dir, append(append([]string{}, pi.GoFiles...), append(pi.TestGoFiles, pi.XTestGoFiles...)...))
		if sh.AnnotationLike > 0 {
			dropped++
			continue
		}
		shape[pi.ImportPath] = sh
		roots = append(roots, pi.ImportPath)
	}
	sort.Strings(roots)
	si, sn := shard()
	ev.ClassN(id, "corpus packages dropped by the precondition filter", int64(dropped))
	ev.ClassN(id, "corpus packages not loadable offline", int64(broken))
	configs := [][]string{nil, {"--config.scan-tests"}, {"--config.exclude-paths="}}
	chunk := 25
	n := 0
	for start := 0; start < len(roots); start += chunk {
		n++
		if n%sn != si {
			continue
		}
		end := start + chunk
		if end > len(roots) {
			end = len(roots)
		}
		flags := configs[(n/sn)%len(configs)]
		pr := engine.RunBinary(dir, flags, toolchain, roots[start:end]...)
		if pr.TimedOut {
			ev.Inconclusive(id, "corpus chunk timed out")
			continue
		}
		if len(pr.Panics) > 0 {
			violation(t, id, "c09corpus", "corpus", 0, map[string]interface{}{"packages": roots[start:end], "flags": flags}, "tool crashed on unannotated corpus: %s", pr.Panics[0])
		}
		if len(pr.Errors) > 0 {
			// load errors of the corpus are not a verdict
			ev.Class(id, "corpus chunk with load/analysis error (not judged)")
			continue
		}
		for _, pth := range roots[start:end] {
			ev.Eval(id)
			sh := shape[pth]
			if sh.FieldWrites > 0 && sh.CompositeLits > 0 && sh.MethodCalls > 0 {
				ev.NonTrivial(id, ev.Hash("corpus", pth))
			}
		}
		ev.Class(id, fmt.Sprintf("corpus chunks run with flags %v", flags))
		if len(pr.Diags) > 0 {
			var s []string
			for _, d := range pr.Diags {
				s = append(s, fmt.Sprintf("%s %s:%d %s", d.Pkg, d.File, d.Line, d.Code))
			}
			violation(t, id, "c09corpus", "corpus", 0, map[string]interface{}{"packages": roots[start:end], "flags": flags, "diagnostics": s}, "diagnostics on unannotated real-world packages: %s", strings.Join(s[:min(len(s), 5)], "; "))
		}
	}
	ev.Sample(id, map[string]interface{}{"kind": "corpus", "packages_judged": len(roots), "first": roots[:min(len(roots), 8)], "shape_of_first": shape[roots[0]]})
}

func init() {
	replayers["c09corpus"] = func(data json.RawMessage) string {
		var c struct {
			Packages []string `json:"packages"`
			Flags    []string `json:"flags"`
		}
		if err := json.Unmarshal(data, &c); err != nil {
			return "bad replay: " + err.Error()
		}
		dir, err := engine.Scratch()
		if err != nil {
			return ""
		}
		defer engine.RmScratch(dir)
		if err := corpusModule(dir); err != nil {
			return ""
		}
		pr := engine.RunBinary(dir, c.Flags, []string{"GOTOOLCHAIN=auto"}, c.Packages...)
		if len(pr.Panics) > 0 {
			return "crash: " + pr.Panics[0]
		}
		if len(pr.Diags) > 0 {
			return fmt.Sprintf("%d diagnostics on unannotated packages, first: %s", len(pr.Diags), pr.Diags[0].String())
		}
		return ""
	}
}
