package props

import (
	"encoding/json"
	"fmt"
	"os"
	"regexp"
	"sort"
	"strings"
	"testing"

	"pgregory.net/rapid"

	"verif/harness/engine"
	"verif/harness/ev"
	"verif/harness/proggen"
)

// c14Case: sources + configuration. Replayed relations:
//
//	(i)  no diagnostic is located in a file the reference skip predicate excludes;
//	(ii) stripping every comment from the excluded files leaves the diagnostics
//	     of all other files unchanged.
//
// (The exactness part of the check saves ordinary "prog" replays.)
type c14Case struct {
	Pkgs    []string          `json:"pkgs"`
	Sources map[string]string `json:"sources"`
	Config  engine.Config     `json:"config"`
}

var lineCommentRe = regexp.MustCompile(`\s*//.*$`)

func stripComments(src string) string {
	var out []string
	for _, l := range strings.Split(src, "\n") {
		out = append(out, lineCommentRe.ReplaceAllString(l, ""))
	}
	return strings.Join(out, "\n")
}

func c14Excluded(file string, cfg engine.Config) bool {
	return refSkipFile(engine.VirtualRoot+"/"+file, cfg.ScanTests, cfg.ExcludePaths)
}

func c14Check(c c14Case) string {
	res, _, err := engine.RunInproc(enginePkgs(c.Pkgs, c.Sources), c.Config, engine.Options{Sequential: true})
	if err != nil {
		return "load: " + err.Error()
	}
	if len(res.Panics) > 0 {
		return "panic: " + res.Panics[0]
	}
	var probs []string
	for _, d := range res.Diags {
		if c14Excluded(d.File, c.Config) {
			probs = append(probs, fmt.Sprintf("diagnostic located in excluded file: %s:%d %s", d.File, d.Line, d.Code))
		}
		if strings.HasPrefix(d.Code, "TONL") && strings.HasSuffix(d.File, "_test.go") {
			probs = append(probs, fmt.Sprintf("TONL diagnostic in a test file: %s:%d %s", d.File, d.Line, d.Code))
		}
	}
	// (ii) strip comments of excluded files
	stripped := map[string]string{}
	any := false
	for f, s := range c.Sources {
		if c14Excluded(f, c.Config) {
			stripped[f] = stripComments(s)
			any = true
		} else {
			stripped[f] = s
		}
	}
	if any {
		res2, _, err := engine.RunInproc(enginePkgs(c.Pkgs, stripped), c.Config, engine.Options{Sequential: true})
		if err != nil {
			return "load (comments stripped): " + err.Error()
		}
		a, b := map[string]bool{}, map[string]bool{}
		for _, d := range res.Diags {
			if !c14Excluded(d.File, c.Config) {
				a[d.Key()+" "+firstLine(d.Message)] = true
			}
		}
		for _, d := range res2.Diags {
			if !c14Excluded(d.File, c.Config) {
				b[d.Key()+" "+firstLine(d.Message)] = true
			}
		}
		if d := diffSets(a, b, "with excluded files' comments", "comments stripped from excluded files"); d != "" {
			probs = append(probs, "annotations / @ignore inside excluded files influence other files: "+d)
		}
	}
	sort.Strings(probs)
	return strings.Join(probs, "; ")
}

func init() {
	replayers["c14"] = func(data json.RawMessage) string {
		var c c14Case
		if err := json.Unmarshal(data, &c); err != nil {
			return "bad replay: " + err.Error()
		}
		return c14Check(c)
	}
}

func TestC14(t *testing.T) {
	const id = "C14"
	checkWitnesses(t, id)
	checkRegressions(t, id)
	ev.Rule(id, "rapid-generated multi-package programs with regular and in-package _test.go files (annotated declarations, @ignore comments and violations in any of them) under configurations scan-tests x exclude-paths in {empty, default, 1-3 tokens matching file names, name fragments or directories of the program}. oracles: (i) no diagnostic in a file excluded by the reference skip predicate, never TONL in a test file; (ii) metamorphic: stripping all comments from the excluded files leaves the other files' diagnostics unchanged; (iii) exactness under the configuration: the IMM/CTOR/TONL/PKGO diagnostics equal the model expectation in which annotations of excluded files do not exist and sites in excluded files are silent (with scan-tests on, test files are checked like any other file but never get TONL). non-trivial = an excluded file holds an annotation on a declaration that an analysed file uses, or a file-level/@ignore comment, or a violation site; distinct by (sources, config)")
	_, sn := shard()
	extBudget := scale(16, 1600) / sn
	extN := 0
	rapid.Check(t, func(rt *rapid.T) {
		p := proggen.Gen(rt, proggen.GenOpts{Focus: "all", MinPkgs: 1, MaxPkgs: 3, TestFiles: true, XTest: true, Aliases: true, Rich: true})
		// @ignore comments: sometimes a file-level one in a random file
		var files []*proggen.File
		for _, pk := range p.Pkgs {
			files = append(files, pk.Files...)
		}
		nIgn := 0
		for _, f := range files {
			if rapid.IntRange(0, 9).Draw(rt, "fileIgnore") == 0 {
				f.Head = []string{"// @ignore " + rapid.SampledFrom([]string{"ALL", "IMM", "CTOR, TONL", "PKGO01"}).Draw(rt, "ignCodes")}
				nIgn++
			}
		}
		if nIgn > 0 {
			p.Render()
		}
		cfg := engine.Config{ScanTests: rapid.Bool().Draw(rt, "scanTests")}
		// exclude-paths
		var pool []string
		for _, f := range files {
			pool = append(pool, f.Name, strings.TrimSuffix(f.Name, ".go"), f.Pkg.Dir+"/", f.Pkg.Dir+"/"+f.Name, f.Pkg.Dir+"/"+f.Name[:2])
		}
		pool = append(pool, "_test", "testdata", "nomatch", "f1", "0.go")
		// an entry that happens to occur in the directory the real drivers work in would
		// exclude everything there and nothing in-process: not a token of the program
		if sc := os.Getenv("VERIF_SCRATCH"); sc != "" {
			kept := pool[:0]
			for _, tok := range pool {
				if !strings.Contains(sc+"/p0-0/w/", tok) {
					kept = append(kept, tok)
				}
			}
			pool = kept
		}
		// cases that also go through the real drivers prefer directory entries (go vet starts
		// the tool in each package's directory: a relative reading of the entry would differ)
		wantExt := extN < extBudget && engine.BinPath() != "" && rapid.IntRange(0, 9).Draw(rt, "external") < 3
		if wantExt && rapid.IntRange(0, 9).Draw(rt, "dirEntry") < 6 {
			f := files[rapid.IntRange(0, len(files)-1).Draw(rt, "dirEntryFile")]
			cfg.ExcludePaths = append(cfg.ExcludePaths, rapid.SampledFrom([]string{"/" + f.Pkg.Dir + "/", "/" + f.Pkg.Dir + "/" + f.Name}).Draw(rt, "dirEntryForm"))
		}
		switch rapid.IntRange(0, 3).Draw(rt, "pathsShape") {
		case 0:
			if cfg.ExcludePaths == nil {
				cfg.ExcludePaths = []string{}
			}
		case 1:
			cfg.ExcludePaths = append(cfg.ExcludePaths, "testdata")
		default:
			n := rapid.IntRange(1, 3).Draw(rt, "npaths")
			for i := 0; i < n; i++ {
				cfg.ExcludePaths = append(cfg.ExcludePaths, pool[rapid.IntRange(0, len(pool)-1).Draw(rt, "pathTok")])
			}
		}
		if nIgn > 0 {
			// file-level @ignore makes the model expectation of that file
			// depend on C07's relation; exactness is judged only without them
		}
		res := loadOrBug(rt, id, p, cfg)
		ev.Eval(id)
		src := p.Sources()
		c := c14Case{Pkgs: pkgDirs(p), Sources: src, Config: cfg}
		if len(res.Panics) > 0 {
			violation(rt, id, "c14", "c14", p.Size(), c, "analyzer panicked: %s", res.Panics[0])
		}
		if why := c14Check(c); why != "" {
			violation(rt, id, "c14", "c14", p.Size(), c, "config scan-tests=%v exclude-paths=%q: %s", cfg.ScanTests, cfg.ExcludePaths, why)
		}
		// (iii) exactness under the configuration
		if nIgn == 0 {
			for _, cat := range []struct {
				prefix string
				expect func(*proggen.Prog, engine.Config) *proggen.Expect
			}{{"IMM", proggen.ExpectIMM}, {"CTOR", proggen.ExpectCTOR}, {"TONL", proggen.ExpectTONL}, {"PKGO", proggen.ExpectPKGO}} {
				e := cat.expect(p, cfg)
				if mm := proggen.Compare(p, res.Diags, e, cat.prefix); len(mm) > 0 {
					var ss []string
					for _, m := range mm {
						ss = append(ss, m.String())
					}
					must, may, oneOf := expectKeys(p, e)
					pc := progCase{Pkgs: pkgDirs(p), Sources: src, Config: cfg, Prefixes: []string{cat.prefix}, Must: must, May: may, OneOf: oneOf}
					violation(rt, id, "prog", "c14-exact", p.Size(), pc, "config scan-tests=%v exclude-paths=%q: %s tool and model disagree: %s", cfg.ScanTests, cfg.ExcludePaths, cat.prefix, strings.Join(ss, "; "))
				}
			}
		}
		// (iv) the same configuration through the real drivers: the standalone binary and
		// go vet -vettool (which starts the tool in each package's own directory) must
		// locate their diagnostics exactly where the in-process run does
		if wantExt {
			extN++
			if why := c14Drivers(c, res.Diags); why != "" {
				violation(rt, id, "c14", "c14-drivers", p.Size(), c, "config scan-tests=%v exclude-paths=%q through the real drivers: %s", cfg.ScanTests, cfg.ExcludePaths, why)
			}
			ev.Class(id, "configuration also through binary and go vet")
		}
		// classification / non-triviality
		nExcl, nExclAnnot, nExclSites := 0, 0, 0
		exclFile := map[*proggen.File]bool{}
		for _, f := range files {
			if c14Excluded(f.Pkg.Dir+"/"+f.Name, cfg) {
				nExcl++
				exclFile[f] = true
				if len(f.Head) > 0 {
					nExclAnnot++
				}
			}
		}
		used := map[*proggen.TypeDecl]bool{}
		p.Walk(func(si proggen.SiteInfo) {
			if exclFile[si.Ctx.File] {
				if len(si.Site.Events()) > 0 {
					nExclSites++
				}
				return
			}
			for _, evn := range si.Site.Events() {
				if evn.Type != nil {
					used[evn.Type] = true
				}
			}
		})
		for _, td := range p.AllTypes() {
			if td.File != nil && exclFile[td.File] && used[td] && (td.Immutable || td.HasCtor() || td.TestOnly || td.PackageOnly != nil) {
				nExclAnnot++
			}
		}
		if nExcl > 0 && (nExclAnnot > 0 || nExclSites > 0) {
			ev.NonTrivial(id, ev.Hash(fmt.Sprint(src), fmt.Sprint(cfg)))
		}
		ev.Class(id, fmt.Sprintf("scan-tests=%v", cfg.ScanTests))
		ev.Class(id, fmt.Sprintf("excluded files: %s", bucket(nExcl)))
		if nExclAnnot > 0 {
			ev.Class(id, "excluded file holds annotation used by analysed file or file-level @ignore")
		}
		if nExclSites > 0 {
			ev.Class(id, "excluded file holds violation sites")
		}
		if ev.SampleCount(id) < 3 && nExclAnnot > 0 && nExclSites > 0 && p.Size() < 140 {
			ev.Sample(id, map[string]interface{}{"config": cfg, "sources": src, "diagnostics": sortedKeys(engine.KeySet(res.Diags))})
		}
	})
}

// c14Drivers runs the case through the standalone binary and go vet -vettool
// with the configuration given as flags and compares with the in-process result.
func c14Drivers(c c14Case, inproc []engine.Diag) string {
	dir, err := engine.Scratch()
	if err != nil {
		return ""
	}
	defer engine.RmScratch(dir)
	if err := engine.WriteToDisk(enginePkgs(c.Pkgs, c.Sources), dir); err != nil {
		return ""
	}
	flags := []string{fmt.Sprintf("--config.scan-tests=%v", c.Config.ScanTests), "--config.exclude-paths=" + strings.Join(c.Config.ExcludePaths, ",")}
	bin := engine.RunBinary(dir, flags, nil, "./...")
	if bin.TimedOut {
		return ""
	}
	if len(bin.Panics) > 0 || len(bin.Errors) > 0 || bin.Exit != 0 {
		return fmt.Sprintf("binary failed: exit %d %v %v %s", bin.Exit, bin.Panics, bin.Errors, firstLine(bin.Stderr))
	}
	if d := diffSets(diagSet(inproc), diagSet(bin.Diags), "in-process", "standalone binary"); d != "" {
		return d
	}
	vet := engine.RunVet(dir, flags, nil, "./...")
	if vet.TimedOut {
		return ""
	}
	if len(vet.Panics) > 0 || len(vet.Errors) > 0 {
		return fmt.Sprintf("go vet -vettool failed: exit %d %v %v", vet.Exit, vet.Panics, vet.Errors)
	}
	if d := diffSets(diagSetFull(bin.Diags), diagSetFull(vet.Diags), "standalone binary", "go vet -vettool"); d != "" {
		return d
	}
	return ""
}
