package props

import (
	"encoding/json"
	"fmt"
	"go/token"
	"strings"
	"testing"

	"pgregory.net/rapid"

	"github.com/a14e/gogreement/src/util"

	"verif/harness/ev"
)

// ---- reference model (order-free list scan; restated code table) -------------

var refCategories = []string{"IMM", "CTOR", "TONL", "PKGO", "IMPL"}

var refCodes = map[string][]string{
	"IMM":  {"IMM01", "IMM02", "IMM03", "IMM04"},
	"CTOR": {"CTOR01", "CTOR02", "CTOR03"},
	"TONL": {"TONL01", "TONL02", "TONL03"},
	"PKGO": {"PKGO01", "PKGO02", "PKGO03"},
	"IMPL": {"IMPL01", "IMPL02", "IMPL03"},
}

// refCategoryOf returns the category of a documented code ("" otherwise); a
// category token is its own category.
func refCategoryOf(code string) string {
	for cat, cs := range refCodes {
		if code == cat {
			return cat
		}
		for _, c := range cs {
			if c == code {
				return cat
			}
		}
	}
	return ""
}

// refTokenMatches: does suppression token tok cover diagnostic code c
// (ALL > category > code)?
func refTokenMatches(tok, c string) bool {
	if tok == "ALL" || tok == c {
		return true
	}
	if cat := refCategoryOf(c); cat != "" && tok == cat {
		return true
	}
	return false
}

type igOp struct {
	Global bool     `json:"global"`
	Codes  []string `json:"codes"`
	Start  int      `json:"start"`
	End    int      `json:"end"`
}

func (o igOp) String() string {
	if o.Global {
		return fmt.Sprintf("global(%s)", strings.Join(o.Codes, ","))
	}
	return fmt.Sprintf("add(%s,[%d,%d])", strings.Join(o.Codes, ","), o.Start, o.End)
}

func refSuppressed(ops []igOp, code string, pos int) bool {
	for _, o := range ops {
		for _, tok := range o.Codes {
			if !refTokenMatches(tok, code) {
				continue
			}
			if o.Global || (o.Start <= pos && pos <= o.End) {
				return true
			}
		}
	}
	return false
}

type igAnn struct {
	codes []string
	s, e  token.Pos
}

func (a igAnn) GetCodes() []string     { return a.codes }
func (a igAnn) GetStartPos() token.Pos { return a.s }
func (a igAnn) GetEndPos() token.Pos   { return a.e }

func applyIgOp(s *util.IgnoreSet, o igOp) {
	if o.Global {
		s.AddModuleIgnore(o.Codes)
	} else {
		s.Add(igAnn{o.Codes, token.Pos(o.Start), token.Pos(o.End)})
	}
}

type c16Case struct {
	Ops   []igOp `json:"ops"`
	Code  string `json:"query_code"`
	Pos   int    `json:"query_pos"`
	Want  bool   `json:"want_suppressed"`
	Got   bool   `json:"got_suppressed"`
	Fresh string `json:"receiver,omitempty"` // "nil" | "zero" | ""
}

func init() {
	replayers["c16"] = func(data json.RawMessage) string {
		var c c16Case
		if err := json.Unmarshal(data, &c); err != nil {
			return "bad replay: " + err.Error()
		}
		var s *util.IgnoreSet
		if c.Fresh != "nil" {
			s = &util.IgnoreSet{}
		}
		for _, o := range c.Ops {
			applyIgOp(s, o)
		}
		got := s.Contains(c.Code, token.Pos(c.Pos))
		want := refSuppressed(c.Ops, c.Code, c.Pos)
		if got != want {
			return fmt.Sprintf("history %v: Contains(%s,%d)=%v, reference says %v", c.Ops, c.Code, c.Pos, got, want)
		}
		return ""
	}
}

var c16QueryCodes = []string{"IMM01", "IMM02", "IMM03", "CTOR01", "CTOR02", "IMM", "CTOR", "ZZZ9"}

func c16Alphabet() []igOp {
	var ops []igOp
	for _, code := range []string{"ALL", "IMM", "IMM01", "IMM02", "CTOR01", "ZZZ9"} {
		ops = append(ops, igOp{Global: true, Codes: []string{code}})
		for s := 1; s <= 5; s++ {
			for e := s; e <= 5; e++ {
				ops = append(ops, igOp{Codes: []string{code}, Start: s, End: e})
			}
		}
	}
	return ops
}

// TestC16Exhaustive enumerates every history of up to N add-operations over
// the 96-operation alphabet and all 8x7 queries after it.
func TestC16Exhaustive(t *testing.T) {
	const id = "C16"
	checkWitnesses(t, id)
	checkRegressions(t, id)
	alpha := c16Alphabet()
	maxLen := scale(3, 4)
	si, sn := shard()
	ev.Rule(id, "exhaustive: all histories of 0..N ops (N=3 quick, 4 thorough) over 96 ops = {ALL,IMM,IMM01,IMM02,CTOR01,unknown} x (global | 15 ranges in 1..5), each followed by 8 codes x positions 0..6 queries, compared with an order-free list-scan model; plus rapid state machine with long histories. non-trivial = (history,query) pair whose answer is decided at a range boundary (p in {s,e,s-1,e+1} of a token-matching range) or by a non-exact hierarchy level (ALL/category token) - distinct pairs counted by hash")
	ev.Assume(id, "positions are valid token.Pos values (>=1) for range starts; NoPos(0) only as query position")
	var hist []igOp
	var evals, nontriv int64
	samplesLeft := 3
	var rec func(depth int)
	check := func() {
		s := &util.IgnoreSet{}
		for _, o := range hist {
			applyIgOp(s, o)
		}
		for _, qc := range c16QueryCodes {
			for p := 0; p <= 6; p++ {
				got := s.Contains(qc, token.Pos(p))
				want := refSuppressed(hist, qc, p)
				evals++
				if c16NonTrivial(hist, qc, p) {
					nontriv++
				}
				if got != want {
					c := c16Case{Ops: append([]igOp{}, hist...), Code: qc, Pos: p, Want: want, Got: got}
					violation(t, id, "c16", "exhaustive", len(hist), c, "history %v: Contains(%s,%d)=%v, reference says %v", hist, qc, p, got, want)
				}
			}
		}
		if samplesLeft > 0 && len(hist) == maxLen && (evals/56)%97 == 5 {
			samplesLeft--
			ev.Sample(id, map[string]interface{}{"history": fmt.Sprint(hist), "queries": "8 codes x pos 0..6", "all_agree": true})
		}
	}
	rec = func(depth int) {
		check()
		if depth == maxLen {
			return
		}
		for i, o := range alpha {
			if depth == 0 && i%sn != si {
				continue
			}
			hist = append(hist, o)
			rec(depth + 1)
			hist = hist[:len(hist)-1]
		}
	}
	rec(0)
	ev.EvalN(id, evals)
	// every enumerated (history,query) pair is distinct by construction
	ev.ClassN(id, "exhaustive_pairs", evals)
	ev.ClassN(id, "exhaustive_nontrivial_pairs", nontriv)
	ev.DistinctN(id, nontriv)
	ev.Set(id, "exhaustive_max_ops", maxLen)
	ev.Exhaustive(id, true)
}

func c16NonTrivial(ops []igOp, code string, pos int) bool {
	for _, o := range ops {
		for _, tok := range o.Codes {
			if !refTokenMatches(tok, code) {
				continue
			}
			if tok != code {
				return true // decided through ALL / category level
			}
			if !o.Global && (pos == o.Start || pos == o.End || pos == o.Start-1 || pos == o.End+1) {
				return true
			}
		}
	}
	return false
}

// TestC16Rapid is the model-based state machine: long histories, wide and
// inverted ranges, multi-code markers, nil / zero-value receivers, queries
// interleaved with adds.
func TestC16Rapid(t *testing.T) {
	const id = "C16"
	codeGen := rapid.SampledFrom([]string{"ALL", "IMM", "CTOR", "TONL", "PKGO", "IMPL", "IMM01", "IMM02", "IMM03", "IMM04", "CTOR01", "CTOR02", "CTOR03", "TONL01", "PKGO03", "IMPL02", "ZZZ9", "IM", "IMM0", "all", "imm01", ""})
	rapid.Check(t, func(rt *rapid.T) {
		var ops []igOp
		s := &util.IgnoreSet{}
		fresh := ""
		if rapid.IntRange(0, 9).Draw(rt, "nilrecv") == 0 {
			// a nil set is only ever queried
			s = nil
			fresh = "nil"
		}
		queries := 0
		query := func(rt *rapid.T) {
			qc := rapid.SampledFrom([]string{"IMM01", "IMM02", "IMM03", "IMM04", "CTOR01", "CTOR02", "CTOR03", "TONL01", "TONL02", "TONL03", "PKGO01", "PKGO02", "PKGO03", "IMPL01", "IMPL02", "IMPL03", "IMM", "CTOR", "ZZZ9", "ALL"}).Draw(rt, "qcode")
			var p int
			if len(ops) > 0 && rapid.Bool().Draw(rt, "nearBoundary") {
				o := ops[rapid.IntRange(0, len(ops)-1).Draw(rt, "which")]
				p = rapid.SampledFrom([]int{o.Start - 1, o.Start, o.Start + 1, o.End - 1, o.End, o.End + 1}).Draw(rt, "bp")
				if p < 0 {
					p = 0
				}
			} else {
				p = rapid.IntRange(0, 1<<20).Draw(rt, "pos")
			}
			got := s.Contains(qc, token.Pos(p))
			want := refSuppressed(ops, qc, p)
			queries++
			ev.Eval(id)
			if c16NonTrivial(ops, qc, p) {
				ev.NonTrivial(id, ev.Hash(fmt.Sprint(ops), qc, fmt.Sprint(p)))
			}
			if got != want {
				c := c16Case{Ops: append([]igOp{}, ops...), Code: qc, Pos: p, Want: want, Got: got, Fresh: fresh}
				violation(rt, id, "c16", "rapid", len(ops), c, "history %v: Contains(%s,%d)=%v, reference says %v", ops, qc, p, got, want)
			}
		}
		actions := map[string]func(*rapid.T){"query": query, "": func(rt *rapid.T) {}}
		if s != nil {
			actions["add"] = func(rt *rapid.T) {
				n := rapid.IntRange(1, 3).Draw(rt, "ncodes")
				var cs []string
				for i := 0; i < n; i++ {
					cs = append(cs, codeGen.Draw(rt, "code"))
				}
				st := rapid.IntRange(1, 1<<20).Draw(rt, "start")
				var en int
				switch rapid.IntRange(0, 5).Draw(rt, "shape") {
				case 0:
					en = st // single position
				case 1:
					en = st - rapid.IntRange(1, 50).Draw(rt, "inv") // inverted: contains nothing
					if en < 0 {
						en = 0
					}
				default:
					en = st + rapid.IntRange(0, 5000).Draw(rt, "len")
				}
				o := igOp{Codes: cs, Start: st, End: en}
				applyIgOp(s, o)
				ops = append(ops, o)
			}
			actions["global"] = func(rt *rapid.T) {
				n := rapid.IntRange(0, 3).Draw(rt, "ncodes")
				cs := []string{}
				for i := 0; i < n; i++ {
					cs = append(cs, codeGen.Draw(rt, "code"))
				}
				o := igOp{Global: true, Codes: cs}
				applyIgOp(s, o)
				ops = append(ops, o)
			}
		}
		rt.Repeat(actions)
		if ev.SampleCount(id) < 6 && len(ops) >= 3 {
			ev.Sample(id, map[string]interface{}{"history": fmt.Sprint(ops), "queries_checked": queries})
		}
		ev.Class(id, fmt.Sprintf("rapid_history_len_%s", bucket(len(ops))))
	})
}

func bucket(n int) string {
	switch {
	case n == 0:
		return "0"
	case n <= 2:
		return "1-2"
	case n <= 5:
		return "3-5"
	case n <= 10:
		return "6-10"
	case n <= 30:
		return "11-30"
	default:
		return ">30"
	}
}
