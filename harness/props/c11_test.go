package props

import (
	"encoding/json"
	"fmt"
	"os"
	"path/filepath"
	"sort"
	"strings"
	"testing"

	"pgregory.net/rapid"

	"verif/harness/engine"
	"verif/harness/ev"
	"verif/harness/proggen"
)

type c11Case struct {
	Pkgs    []string          `json:"pkgs"`
	Sources map[string]string `json:"sources"`
	Note    string            `json:"note"`
	// SecondModule: the main module requires (and replaces to a sub-directory) a second
	// module vf.test/lib2 with @packageonly items, a violation inside it and one in the
	// main module; the runs also list, prepend and isolate the second module's packages
	SecondModule bool `json:"second_module,omitempty"`
}

// c11WriteSecondModule adds vf.test/lib2 below dir and a main-module package using it.
func c11WriteSecondModule(dir string) error {
	files := map[string]string{
		"go.mod":              "module " + proggen.Module + "\n\ngo 1.23\n\nrequire vf.test/lib2 v0.0.0\n\nreplace vf.test/lib2 => ./zzlib2\n",
		"zzlib2/go.mod":       "module vf.test/lib2\n\ngo 1.23\n",
		"zzlib2/kit/kit.go":   "package kit\n\n// @packageonly\ntype Secret struct{ N int }\n\n// @packageonly vf.test/lib2/kit, other\nfunc Open() *Secret { return &Secret{} }\n\n// @packageonly\nfunc (s *Secret) Peek() int { return s.N }\n",
		"zzlib2/report/r.go":  "package report\n\nimport \"vf.test/lib2/kit\"\n\nvar S kit.Secret\n\nfunc R() int { return kit.Open().Peek() }\n",
		"zzlib2/report2/r.go": "package report2\n\nimport \"vf.test/lib2/kit\"\n\nfunc R() *kit.Secret { return kit.Open() }\n",
		"zzuse/u.go":          "package zzuse\n\nimport \"vf.test/lib2/kit\"\n\nfunc U() int { return kit.Open().Peek() }\n\nvar V *kit.Secret\n",
	}
	for name, src := range files {
		fn := filepath.Join(dir, name)
		if err := os.MkdirAll(filepath.Dir(fn), 0o755); err != nil {
			return err
		}
		if err := os.WriteFile(fn, []byte(src), 0o644); err != nil {
			return err
		}
	}
	return nil
}

type c11Sched struct {
	name   string
	flags  []string
	env    []string
	pats   []string
	subset bool
	learn  bool // packages the baseline did not list are recorded, not flagged
}

// c11Run compares the per-package JSON of the binary across schedules and runs
// the race-instrumented binary.
func c11Run(c c11Case, rt *rapid.T, race bool) (string, int) {
	if engine.BinPath() == "" {
		return "", 0
	}
	prog := enginePkgs(c.Pkgs, c.Sources)
	dir, err := engine.Scratch()
	if err != nil {
		return "", 0
	}
	defer engine.RmScratch(dir)
	if err := engine.WriteToDisk(prog, dir); err != nil {
		return "", 0
	}
	if c.SecondModule {
		if err := c11WriteSecondModule(dir); err != nil {
			return "", 0
		}
	}
	base := engine.RunBinary(dir, nil, nil, "./...")
	if len(base.Panics) > 0 || base.Exit != 0 || len(base.Errors) > 0 {
		return fmt.Sprintf("baseline run failed: exit %d %v %v", base.Exit, base.Panics, base.Errors), 0
	}
	want, err := engine.PerPackageJSON(base.Stdout, dir)
	if err != nil {
		return "baseline json: " + err.Error(), 0
	}
	var pats []string
	for _, d := range c.Pkgs {
		pats = append(pats, "./"+d)
	}
	if c.SecondModule {
		pats = append(pats, "./zzuse")
	}
	perm := func(label string) []string {
		if rt == nil {
			out := append([]string{}, pats...)
			sort.Sort(sort.Reverse(sort.StringSlice(out)))
			return out
		}
		return rapid.Permutation(pats).Draw(rt, label)
	}
	scheds := []c11Sched{
		{name: "repeat", pats: []string{"./..."}},
		{name: "sequential(-debug=p)", flags: []string{"-debug=p"}, pats: []string{"./..."}},
		{name: "GOMAXPROCS=1", env: []string{"GOMAXPROCS=1"}, pats: []string{"./..."}},
		{name: "GOMAXPROCS=2", env: []string{"GOMAXPROCS=2"}, pats: []string{"./..."}},
		{name: "GOMAXPROCS=16", env: []string{"GOMAXPROCS=16"}, pats: []string{"./..."}},
		{name: "permuted package arguments", pats: perm("perm1")},
		{name: "permuted package arguments, GOMAXPROCS=16", env: []string{"GOMAXPROCS=16"}, pats: perm("perm2")},
	}
	if len(pats) > 1 {
		p2 := perm("subset")
		scheds = append(scheds, c11Sched{name: "subset of roots", pats: p2[:(len(p2)+1)/2], subset: true})
	}
	if c.SecondModule {
		const lib2 = "vf.test/lib2/..."
		scheds = append(scheds,
			c11Sched{name: "second module's packages listed too", pats: []string{"./...", lib2}, learn: true},
			c11Sched{name: "second module first", pats: []string{lib2, "./..."}},
			c11Sched{name: "second module first, sequential", flags: []string{"-debug=p"}, pats: []string{lib2, "./..."}},
			c11Sched{name: "second module alone", pats: []string{lib2}, subset: true},
			c11Sched{name: "second module alone, sequential", flags: []string{"-debug=p"}, pats: []string{lib2}, subset: true},
		)
	}
	runs := 0
	for _, s := range scheds {
		r := engine.RunBinary(dir, s.flags, s.env, s.pats...)
		runs++
		if len(r.Panics) > 0 || r.Exit != 0 || len(r.Errors) > 0 {
			return fmt.Sprintf("%s: run failed: exit %d %v %v %s", s.name, r.Exit, r.Panics, r.Errors, firstLine(r.Stderr)), runs
		}
		got, err := engine.PerPackageJSON(r.Stdout, dir)
		if err != nil {
			return s.name + ": json: " + err.Error(), runs
		}
		for pkg, w := range want {
			g, ok := got[pkg]
			if !ok {
				if s.subset {
					continue
				}
				if strings.TrimSpace(w) == "" {
					continue
				}
				return fmt.Sprintf("%s: package %s missing from output", s.name, pkg), runs
			}
			if g != w {
				return fmt.Sprintf("%s: output for package %s differs from the default run:\n--- default\n%s\n--- %s\n%s", s.name, pkg, clipN(w, 600), s.name, clipN(g, 600)), runs
			}
		}
		for pkg := range got {
			if _, ok := want[pkg]; !ok && s.learn {
				want[pkg] = got[pkg]
				continue
			}
			if _, ok := want[pkg]; !ok && strings.TrimSpace(got[pkg]) != "" {
				return fmt.Sprintf("%s: extra package %s in output", s.name, pkg), runs
			}
		}
	}
	if race && engine.RaceBinPath() != "" {
		r := engine.RunBinaryWith(engine.RaceBinPath(), dir, nil, []string{"GOMAXPROCS=16"}, "./...")
		runs++
		if strings.Contains(r.Stderr, "DATA RACE") {
			i := strings.Index(r.Stderr, "DATA RACE")
			return "race detector: " + clipN(r.Stderr[i:], 1500), runs
		}
		if len(r.Panics) > 0 {
			return "race build crashed: " + r.Panics[0], runs
		}
	}
	return "", runs
}

func clipN(s string, n int) string {
	if len(s) > n {
		return s[:n] + "..."
	}
	return s
}

func init() {
	replayers["c11"] = func(data json.RawMessage) string {
		var c c11Case
		if err := json.Unmarshal(data, &c); err != nil {
			return "bad replay: " + err.Error()
		}
		for i := 0; i < 3; i++ {
			if why, _ := c11Run(c, nil, true); why != "" {
				return why
			}
		}
		return ""
	}
}

func TestC11(t *testing.T) {
	const id = "C11"
	checkWitnesses(t, id)
	checkRegressions(t, id)
	if engine.BinPath() == "" {
		t.Fatalf("GENERATOR-BUG no binary")
	}
	ev.Rule(id, "rapid-generated programs with 4-8 packages, each run through the real binary under 8 schedules (repeat, -debug=p sequential, GOMAXPROCS 1/2/16, permuted package arguments, permuted with 16 procs, a subset of the roots) and the per-package -json output compared byte for byte with the default run (array order preserved, so report order counts); a -race build of the binary runs on a share of the programs (any DATA RACE report is a violation); in-process the parallel driver is compared with the sequential one on every program. non-trivial = program with >=4 packages carrying diagnostics and >=1 message printing a list (allowed packages / constructors); distinct by source hash")
	ev.Assume(id, "the goroutine schedule of the x/tools driver is sampled, not enumerated; the race detector only sees accesses that were executed")
	cfg := engine.DefaultConfig()
	si, sn := shard()
	_ = si
	extBudget := scale(160, 4000) / sn
	raceBudget := scale(16, 800) / sn
	extN, raceN := 0, 0
	rapid.Check(t, func(rt *rapid.T) {
		p := proggen.Gen(rt, proggen.GenOpts{Focus: "all", MinPkgs: 4, MaxPkgs: 8, TestFiles: false, Aliases: true, Rich: true, Twins: true, Islands: true})
		// @ignore comments for one shared token in many files: the suppression index of a
		// package then holds markers of several files, whose position ranges depend on the
		// order in which the loader happened to parse the files
		if nodes := p.Nodes(); len(nodes) > 0 && rapid.Bool().Draw(rt, "withIgnoreComments") {
			// aim at statements that are reported: the comments then decide verdicts
			pre := loadOrBug(rt, id, p, cfg)
			bySite, _ := proggen.SiteDiags(p, pre.Diags)
			var hot []proggen.NodeRef
			for _, nd := range nodes {
				for _, sid := range nd.Sites {
					if len(bySite[sid]) > 0 {
						hot = append(hot, nd)
						break
					}
				}
			}
			tok := rapid.SampledFrom([]string{"ALL", "IMM", "IMM01", "CTOR", "CTOR01, IMM01", "TONL, PKGO", "IMM01, IMM03", "ALL", "IMM, CTOR, TONL, PKGO"}).Draw(rt, "ignoreToken")
			for i, n := 0, rapid.IntRange(3, 12).Draw(rt, "nIgnore"); i < n; i++ {
				pool := nodes
				if len(hot) > 0 && rapid.IntRange(0, 9).Draw(rt, "aimed") < 8 {
					pool = hot
				}
				nd := pool[rapid.IntRange(0, len(pool)-1).Draw(rt, "ignoreNode")]
				cm := "// @ignore " + tok
				if rapid.Bool().Draw(rt, "ignoreTrailing") {
					nd.Node.Trailing = cm
				} else {
					nd.Node.Before = append(nd.Node.Before, cm)
				}
			}
			p.Render()
			ev.Class(id, "program with @ignore comments for one token in several files")
		}
		// generated-code style: a /*line*/ directive in one package that points into a source
		// file of another package - what is shown for such a diagnostic must not depend on
		// which other packages happen to be analysed in the same process
		if len(p.Pkgs) >= 2 && rapid.IntRange(0, 9).Draw(rt, "lineDirective") < 3 {
			qi := rapid.IntRange(1, len(p.Pkgs)-1).Draw(rt, "linePkg")
			q, tgt := p.Pkgs[qi], p.Pkgs[rapid.IntRange(0, qi-1).Draw(rt, "lineTarget")]
			var fns []*proggen.FuncDecl
			for _, f := range q.Files {
				if f.Kind != proggen.FileRegular {
					continue
				}
				for _, d := range f.Decls {
					if fd, ok := d.(*proggen.FuncDecl); ok && len(fd.Body) > 0 {
						fns = append(fns, fd)
					}
				}
			}
			if len(fns) > 0 && len(tgt.Files) > 0 {
				fd := fns[rapid.IntRange(0, len(fns)-1).Draw(rt, "lineFunc")]
				rel := strings.Repeat("../", strings.Count(q.Dir, "/")+1) + tgt.Dir + "/" + tgt.Files[0].Name
				fd.Body = append([]proggen.Stmt{&proggen.Filler{Text: fmt.Sprintf("/*line %s:%d*/", rel, rapid.IntRange(1, 12).Draw(rt, "lineNo"))}}, fd.Body...)
				p.Render()
				ev.Class(id, "program with a /*line*/ directive into a file of another package")
			}
		}
		seq := loadOrBug(rt, id, p, cfg)
		src := p.Sources()
		ev.Eval(id)
		// in-process: parallel vs sequential, repeated
		ld, err := engine.Load(p.ToEngine(), engine.VirtualRoot, "go1.23")
		if err != nil {
			rt.Fatalf("GENERATOR-BUG %v", err)
		}
		c := c11Case{Pkgs: pkgDirs(p), Sources: src}
		want := diagSetFull(seq.Diags)
		for i := 0; i < 2; i++ {
			par := engine.Analyze(ld, cfg, engine.Options{Sequential: false})
			if len(par.Panics) > 0 {
				violation(rt, id, "c11", "inproc", p.Size(), c, "panic in parallel run: %s", par.Panics[0])
			}
			if d := diffSets(want, diagSetFull(par.Diags), "sequential", "parallel"); d != "" {
				c.Note = "in-process"
				violation(rt, id, "c11", "inproc", p.Size(), c, "parallel in-process analysis differs from sequential: %s", d)
			}
		}
		ev.Class(id, "in-process parallel vs sequential")
		// classification
		pk := map[string]bool{}
		list := false
		for _, d := range seq.Diags {
			pk[dirOfFile(d.File)] = true
			if strings.Contains(d.Message, "allowed: [") || strings.Contains(d.Message, "Allowed packages: [") || strings.Contains(d.Message, "missing methods:") {
				list = true
			}
		}
		nt := len(pk) >= 4 && list
		if nt {
			ev.NonTrivial(id, ev.Hash(fmt.Sprint(src)))
		}
		ev.Class(id, fmt.Sprintf("packages with diagnostics: %s", bucket(len(pk))))
		if extN < extBudget {
			extN++
			race := raceN < raceBudget
			if race {
				raceN++
			}
			if rapid.IntRange(0, 9).Draw(rt, "twinFixture") < 4 {
				// four more packages without a dependency on the generated ones: two packages that
				// share their name and declare a same-named interface with different method sets,
				// and one implementer of each - what the tool says about one must not depend on
				// whether (or when) the other is analysed in the same process
				c.Pkgs = append(append([]string{}, c.Pkgs...), "tw1/repo", "tw2/repo", "twsvc1", "twsvc2")
				ns := map[string]string{}
				for k, v := range c.Sources {
					ns[k] = v
				}
				ns["tw1/repo/r.go"] = "package repo\n\ntype Repo interface {\n\tGet() int\n}\n\n// @immutable\n// @testonly\ntype Rec struct{ N int }\n"
				ns["tw2/repo/r.go"] = "package repo\n\ntype Repo interface {\n\tGet() int\n\tPut(int)\n}\n\n// @constructor NewRec\ntype Rec struct{ N int }\n\nfunc NewRec() *Rec { return &Rec{} }\n"
				ns["twsvc1/s.go"] = "package twsvc1\n\nimport \"vf.test/m/tw1/repo\"\n\n// @implements &repo.Repo\ntype S struct{}\n\nfunc (s *S) Get() int { return 0 }\n\nfunc Use(r *repo.Rec) { r.N = 1 }\n"
				ns["twsvc2/s.go"] = "package twsvc2\n\nimport \"vf.test/m/tw2/repo\"\n\n// @implements &repo.Repo\ntype S struct{}\n\nfunc (s *S) Get() int { return 0 }\n\nfunc Use() { _ = repo.Rec{} }\n"
				c.Sources = ns
				ev.Class(id, "with the same-named-packages fixture")
			}
			if rapid.IntRange(0, 9).Draw(rt, "secondModule") < 3 {
				c.SecondModule = true
				ev.Class(id, "with a second module (require + replace) whose packages are listed, prepended, isolated")
			}
			why, runs := c11Run(c, rt, race)
			ev.ClassN(id, "binary runs compared", int64(runs))
			if race {
				ev.Class(id, "race-instrumented runs")
			}
			if why != "" {
				violation(rt, id, "c11", "bin", p.Size(), c, "%s", why)
			}
		}
		ev.SampleFallback(id, map[string]interface{}{"packages": pkgDirs(p), "schedules": "repeat, -debug=p, GOMAXPROCS=1/2/16, permuted args x2, subset", "diagnostics": len(seq.Diags), "one_file": firstFile(src)})
		if ev.SampleCount(id) < 2 && nt && p.Size() < 260 {
			ev.Sample(id, map[string]interface{}{"packages": pkgDirs(p), "schedules": "repeat, -debug=p, GOMAXPROCS=1/2/16, permuted args x2, subset", "diagnostics": len(seq.Diags), "first_file": src[pkgDirs(p)[0]+"/f0.go"]})
		}
	})
}
