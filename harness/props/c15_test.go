package props

import (
	"encoding/json"
	"fmt"
	"go/ast"
	"go/parser"
	"go/token"
	"go/types"
	"reflect"
	"sort"
	"strings"
	"testing"

	"golang.org/x/tools/go/analysis"
	"pgregory.net/rapid"

	"github.com/a14e/gogreement/src/annotations"
	"github.com/a14e/gogreement/src/config"
	"github.com/a14e/gogreement/src/ignore"

	"verif/harness/ev"
)

// ---- reference recogniser (recursive descent, no regexp) -----------------------

type refAnnot struct {
	Kind  string   `json:"kind"` // "" = not an annotation
	Amp   bool     `json:"amp,omitempty"`
	Qual  string   `json:"qualifier,omitempty"`
	Name  string   `json:"name,omitempty"`
	Items []string `json:"items,omitempty"`
	Open  string   `json:"unspecified,omitempty"` // non-empty: statement leaves it open
}

func isBlank(b byte) bool {
	return b == ' ' || b == '\t' || b == '\f' || b == '\r' || b == '\n' || b == '\v'
}

// only the blanks the statement certainly means
func isPlainBlank(b byte) bool { return b == ' ' || b == '\t' }

func isIdentStart(b byte) bool { return b == '_' || (b >= 'a' && b <= 'z') || (b >= 'A' && b <= 'Z') }
func isDigit(b byte) bool      { return b >= '0' && b <= '9' }
func isIdentChar(b byte) bool  { return isIdentStart(b) || isDigit(b) }
func isPathChar(b byte) bool   { return isIdentChar(b) || b == '/' || b == '.' || b == '-' }
func isAlnum(b byte) bool      { return isDigit(b) || (b >= 'a' && b <= 'z') || (b >= 'A' && b <= 'Z') }

var c15Keywords = []string{"implements", "constructor", "immutable", "testonly", "mutable", "packageonly", "ignore"}

// refList finds the longest prefix of s that is a comma list of items (item
// characters given by itemOK, first character by firstOK), with optional
// blanks around commas and an optional trailing comma, and that is followed by
// end of line or a blank. Returns the items and ok.
func refList(s string, firstOK, itemOK func(byte) bool) ([]string, bool) {
	best := -1
	var bestItems []string
	var items []string
	i := 0
	for {
		// item
		if i >= len(s) || !firstOK(s[i]) {
			break
		}
		j := i
		for j < len(s) && itemOK(s[j]) {
			j++
		}
		items = append(items, s[i:j])
		// candidate end right after the item
		if j == len(s) || isBlank(s[j]) {
			best, bestItems = j, append([]string{}, items...)
		}
		// optional blanks, comma
		k := j
		for k < len(s) && isBlank(s[k]) {
			k++
		}
		if k >= len(s) || s[k] != ',' {
			break
		}
		k++ // past the comma: trailing comma is a valid end
		if k == len(s) || isBlank(s[k]) {
			best, bestItems = k, append([]string{}, items...)
		}
		for k < len(s) && isBlank(s[k]) {
			k++
		}
		i = k
	}
	if best < 0 {
		return nil, false
	}
	return bestItems, true
}

// refParse is the reference reading of one comment (text as go/ast gives it).
func refParse(text string) refAnnot {
	if !strings.HasPrefix(text, "//") {
		return refAnnot{} // block comments are inert
	}
	// "whitespace" certainly means blank and tab; whether form feed, vertical
	// tab, carriage return or Unicode spaces count is left open
	if strings.ContainsAny(text, "\v\f\r\u00a0\u2003\u0085") {
		return refAnnot{Open: "exotic whitespace"}
	}
	s := text[2:]
	i := 0
	for i < len(s) && isBlank(s[i]) {
		i++
	}
	s = s[i:]
	if !strings.HasPrefix(s, "@") {
		return refAnnot{}
	}
	kw := ""
	for _, k := range c15Keywords {
		if strings.HasPrefix(s[1:], k) {
			rest := s[1+len(k):]
			if rest == "" || isBlank(rest[0]) {
				kw = k
			}
		}
	}
	if kw == "" {
		return refAnnot{}
	}
	rest := s[1+len(kw):]
	j := 0
	for j < len(rest) && isBlank(rest[j]) {
		j++
	}
	arg := rest[j:] // "" if nothing follows
	// non-ASCII right at the argument: identifiers may be Unicode in Go - left open
	nonASCIIFirstWord := false
	for k := 0; k < len(arg) && !isBlank(arg[k]); k++ {
		if arg[k] >= 0x80 {
			nonASCIIFirstWord = true
		}
	}
	switch kw {
	case "immutable", "testonly", "mutable":
		return refAnnot{Kind: kw}
	case "implements":
		if arg == "" {
			return refAnnot{}
		}
		a := refAnnot{Kind: kw}
		p := 0
		if p < len(arg) && arg[p] == '&' {
			a.Amp = true
			p++
		}
		q := p
		for q < len(arg) && isIdentChar(arg[q]) {
			q++
		}
		if q == p {
			if nonASCIIFirstWord {
				return refAnnot{Open: "non-ASCII identifier"}
			}
			return refAnnot{}
		}
		first := arg[p:q]
		name := first
		if q < len(arg) && arg[q] == '.' {
			r := q + 1
			for r < len(arg) && isIdentChar(arg[r]) {
				r++
			}
			if r == q+1 {
				return refAnnot{}
			}
			a.Qual, name = first, arg[q+1:r]
			q = r
		}
		if q < len(arg) && !isBlank(arg[q]) {
			if nonASCIIFirstWord {
				return refAnnot{Open: "non-ASCII identifier"}
			}
			return refAnnot{}
		}
		a.Name = name
		if isDigit(name[0]) || (a.Qual != "" && isDigit(a.Qual[0])) {
			a.Open = "digit-leading name"
		}
		return a
	case "constructor":
		items, ok := refList(arg, isIdentStart, isIdentChar)
		if !ok {
			if nonASCIIFirstWord {
				return refAnnot{Open: "non-ASCII identifier"}
			}
			return refAnnot{}
		}
		return refAnnot{Kind: kw, Items: items}
	case "ignore":
		items, ok := refList(arg, isAlnum, isAlnum)
		if !ok {
			return refAnnot{}
		}
		var up []string
		for _, it := range items {
			up = append(up, strings.ToUpper(it))
		}
		return refAnnot{Kind: kw, Items: up}
	case "packageonly":
		if arg == "" {
			return refAnnot{Kind: kw}
		}
		items, ok := refList(arg, isPathChar, isPathChar)
		if !ok {
			// "@packageonly foo;bar": optional argument malformed - bare annotation with
			// ignored text, or no annotation? The statement allows both readings.
			return refAnnot{Kind: kw, Open: "malformed first word after optional-argument keyword"}
		}
		return refAnnot{Kind: kw, Items: items}
	}
	return refAnnot{}
}

// ---- running the real readers ---------------------------------------------------

const c15PkgPath = "vf.test/m/p"

type c15Result struct {
	TypeDoc   refAnnot // what ReadAllAnnotations makes of s as doc of type T
	FuncDoc   refAnnot // ... as doc of func F (only testonly / packageonly may appear)
	MethodDoc refAnnot
	FieldDoc  refAnnot // ... as doc of field Y of @immutable U (only mutable may appear)
	Ignore    refAnnot // what ReadIgnoreAnnotations makes of it (kind ignore / "")
	Extra     string   // anything unexpected
}

func c15Source(s string) string {
	return "package p\n\n" + s + "\ntype T struct {\n\tX int\n}\n\n" + s + "\nfunc F() {}\n\n" + s + "\nfunc (t T) M() {}\n\n// @immutable\ntype U struct {\n\t" + s + "\n\tY int\n}\n"
}

func c15Pass(src string) (*analysis.Pass, error) {
	fset := token.NewFileSet()
	f, err := parser.ParseFile(fset, "/vfroot/w/p/p.go", src, parser.ParseComments)
	if err != nil {
		return nil, err
	}
	return &analysis.Pass{Fset: fset, Files: []*ast.File{f}, Pkg: types.NewPackage(c15PkgPath, "p")}, nil
}

func c15Run(s string) (c15Result, error) {
	var r c15Result
	pass, err := c15Pass(c15Source(s))
	if err != nil {
		return r, err
	}
	cfg := config.Empty()
	pa := annotations.ReadAllAnnotations(cfg, pass)
	var extra []string
	set := func(dst *refAnnot, a refAnnot, what string) {
		if dst.Kind != "" {
			extra = append(extra, "two annotations from one line at "+what)
		}
		*dst = a
	}
	for _, a := range pa.ImplementsAnnotations {
		if a.OnType == "T" {
			set(&r.TypeDoc, refAnnot{Kind: "implements", Amp: a.IsPointer, Qual: a.PackageName, Name: a.InterfaceName}, "type doc")
		} else {
			extra = append(extra, "implements on "+a.OnType)
		}
	}
	for _, a := range pa.ConstructorAnnotations {
		if a.OnType == "T" {
			set(&r.TypeDoc, refAnnot{Kind: "constructor", Items: a.ConstructorNames}, "type doc")
		} else {
			extra = append(extra, "constructor on "+a.OnType)
		}
	}
	for _, a := range pa.ImmutableAnnotations {
		switch a.OnType {
		case "T":
			set(&r.TypeDoc, refAnnot{Kind: "immutable"}, "type doc")
		case "U":
		default:
			extra = append(extra, "immutable on "+a.OnType)
		}
	}
	for _, a := range pa.TestonlyAnnotations {
		switch {
		case a.Kind == annotations.TestOnlyOnType && a.ObjectName == "T":
			set(&r.TypeDoc, refAnnot{Kind: "testonly"}, "type doc")
		case a.Kind == annotations.TestOnlyOnFunc && a.ObjectName == "F":
			set(&r.FuncDoc, refAnnot{Kind: "testonly"}, "func doc")
		case a.Kind == annotations.TestOnlyOnMethod && a.ObjectName == "M" && a.ReceiverType == "T":
			set(&r.MethodDoc, refAnnot{Kind: "testonly"}, "method doc")
		default:
			extra = append(extra, fmt.Sprintf("testonly %+v", a))
		}
	}
	for _, a := range pa.PackageOnlyAnnotations {
		items := a.AllowedPackages
		if len(items) == 0 || items[0] != c15PkgPath {
			extra = append(extra, fmt.Sprintf("packageonly without the declaring package first: %+v", a))
		} else {
			items = items[1:]
		}
		ra := refAnnot{Kind: "packageonly", Items: items}
		switch {
		case a.Kind == annotations.TestOnlyOnType && a.ObjectName == "T":
			set(&r.TypeDoc, ra, "type doc")
		case a.Kind == annotations.TestOnlyOnFunc && a.ObjectName == "F":
			set(&r.FuncDoc, ra, "func doc")
		case a.Kind == annotations.TestOnlyOnMethod && a.ObjectName == "M" && a.ReceiverType == "T":
			set(&r.MethodDoc, ra, "method doc")
		default:
			extra = append(extra, fmt.Sprintf("packageonly %+v", a))
		}
	}
	for _, a := range pa.MutableAnnotations {
		if a.OnType == "U" && a.FieldName == "Y" {
			set(&r.FieldDoc, refAnnot{Kind: "mutable"}, "field doc")
		} else {
			extra = append(extra, fmt.Sprintf("mutable %+v", a))
		}
	}
	is := ignore.ReadIgnoreAnnotations(cfg, pass)
	if n := is.Len(); n > 0 {
		// the comment occurs 4 times in the file; every occurrence must be read alike
		codes := is.Markers[0].Codes
		for _, m := range is.Markers {
			if !reflect.DeepEqual(m.Codes, codes) {
				extra = append(extra, "occurrences of the same @ignore text parsed differently")
			}
		}
		if n != 4 {
			extra = append(extra, fmt.Sprintf("%d ignore markers from 4 occurrences", n))
		}
		r.Ignore = refAnnot{Kind: "ignore", Items: codes}
	}
	sort.Strings(extra)
	r.Extra = strings.Join(extra, "; ")
	return r, nil
}

func sameAnnot(a, b refAnnot) bool {
	if a.Kind != b.Kind || a.Amp != b.Amp || a.Qual != b.Qual || a.Name != b.Name {
		return false
	}
	if len(a.Items) != len(b.Items) {
		return false
	}
	for i := range a.Items {
		if a.Items[i] != b.Items[i] {
			return false
		}
	}
	return true
}

// c15Compare returns "" if the readers agree with the reference on text s.
// unspecified=true if the reference leaves the string open.
func c15Compare(s string) (why string, unspecified bool, ref refAnnot, err error) {
	ref = refParse(s)
	got, err := c15Run(s)
	if err != nil {
		return "", false, ref, err
	}
	if ref.Open != "" {
		return "", true, ref, nil
	}
	none := refAnnot{}
	want := c15Result{}
	switch ref.Kind {
	case "implements", "constructor", "immutable":
		want.TypeDoc = ref
	case "testonly", "packageonly":
		want.TypeDoc, want.FuncDoc, want.MethodDoc = ref, ref, ref
	case "mutable":
		want.FieldDoc = ref
	case "ignore":
		want.Ignore = ref
	}
	var probs []string
	chk := func(site string, g, w refAnnot) {
		if !sameAnnot(g, w) {
			gj, _ := json.Marshal(g)
			wj, _ := json.Marshal(w)
			if w.Kind == "" {
				wj = []byte("nothing")
			}
			if g.Kind == "" {
				gj = []byte("nothing")
			}
			probs = append(probs, fmt.Sprintf("as %s: readers give %s, documented grammar gives %s", site, gj, wj))
		}
	}
	chk("type doc", got.TypeDoc, want.TypeDoc)
	chk("func doc", got.FuncDoc, want.FuncDoc)
	chk("method doc", got.MethodDoc, want.MethodDoc)
	chk("field doc of @immutable struct", got.FieldDoc, want.FieldDoc)
	chk("@ignore comment", got.Ignore, want.Ignore)
	if got.Extra != "" {
		probs = append(probs, got.Extra)
	}
	_ = none
	return strings.Join(probs, "; "), false, ref, nil
}

type c15Case struct {
	Text string `json:"comment_text"`
}

func init() {
	replayers["c15"] = func(data json.RawMessage) string {
		var c c15Case
		if err := json.Unmarshal(data, &c); err != nil {
			return "bad replay: " + err.Error()
		}
		why, _, _, err := c15Compare(c.Text)
		if err != nil {
			return ""
		}
		return why
	}
}

var c15Alphabet = []string{" ", "\t", "@immutable", "@constructor", "@testonly", "@packageonly", "@implements", "@mutable", "@ignore",
	"@Immutable", "@immutablex", "@", "Foo", "bar_1", "9x", "&", ".", ",", "/", "-", ";", "é", "IMM01", "imm", "some text"}

// TestC15Exhaustive enumerates "//" + every token sequence up to the bound.
func TestC15Exhaustive(t *testing.T) {
	const id = "C15"
	checkWitnesses(t, id)
	checkRegressions(t, id)
	ev.Rule(id, "(a) exhaustive: every comment text \"//\" + sequence of up to N tokens (N=4 quick, 6 thorough) from a 25-token alphabet (blank, tab, the 7 keywords, near-keywords @Immutable / @immutablex / lone @, identifiers, a digit-leading word, & . , / - ;, a non-ASCII letter, codes in upper and lower case, free text), placed through the real parser as doc comment of a top-level type, of a function, of a method, and of a named field of an @immutable struct, and read by the public annotations.ReadAllAnnotations / ignore.ReadIgnoreAnnotations; compared (kind, &, qualifier, name, items, declaring package first, codes upper-cased) with a hand-written recursive-descent reference recogniser of the documented grammar; (b) rapid strings from a wider alphabet, longer; (c) attachment sites: a recognisable annotation at inert sites (group doc, trailing comment, detached comment, local declaration, var/const doc, package doc, block comment, field of a plain struct, embedded field) must stay inert. unspecified (counted, not judged): non-ASCII identifiers, digit-leading names, malformed first word after @packageonly. non-trivial = text that reaches the grammar (// + optional blanks + @); distinct by construction (enumeration) / by text hash")
	maxLen := scale(4, 6)
	si, sn := shard()
	var evals, nontriv, unspec, recognised int64
	var seq []int
	var b strings.Builder
	var rec func(depth int)
	samples := 0
	check := func() {
		b.Reset()
		b.WriteString("//")
		for _, ti := range seq {
			b.WriteString(c15Alphabet[ti])
		}
		s := b.String()
		why, un, ref, err := c15Compare(s)
		if err != nil {
			return // does not parse as a file (cannot happen for one-line comments)
		}
		evals++
		trim := strings.TrimLeft(s[2:], " \t")
		if strings.HasPrefix(trim, "@") {
			nontriv++
		}
		if un {
			unspec++
			return
		}
		if ref.Kind != "" {
			recognised++
			if samples < 3 && len(seq) == maxLen && recognised%9973 == 7 {
				samples++
				ev.Sample(id, map[string]interface{}{"comment_text": s, "reference_reading": ref, "readers_agree": true})
			}
		}
		if why != "" {
			violation(t, id, "c15", "exhaustive", len(s), c15Case{Text: s}, "comment %q: %s", s, why)
		}
	}
	rec = func(depth int) {
		check()
		if depth == maxLen {
			return
		}
		for i := range c15Alphabet {
			if depth == 0 && i%sn != si {
				continue
			}
			seq = append(seq, i)
			rec(depth + 1)
			seq = seq[:len(seq)-1]
		}
	}
	rec(0)
	ev.EvalN(id, evals)
	ev.DistinctN(id, nontriv)
	ev.ClassN(id, "exhaustive strings", evals)
	ev.ClassN(id, "exhaustive: reach the grammar", nontriv)
	ev.ClassN(id, "exhaustive: recognised as annotation by the reference", recognised)
	ev.ClassN(id, "exhaustive: unspecified (not judged)", unspec)
	ev.Set(id, "exhaustive_max_tokens", maxLen)
	ev.Exhaustive(id, true)
}

func TestC15Rapid(t *testing.T) {
	const id = "C15"
	piece := rapid.OneOf(
		rapid.SampledFrom(c15Alphabet),
		rapid.SampledFrom([]string{"@ignore", "@constructor", "@packageonly", "@implements"}),
		rapid.SampledFrom([]string{"New", "NewT", "_x", "io", "Reader", "a/b-c.d", "github.com/x/y", "ALL", "CTOR02", "tonl", "x9", "  ", " , ", ",\t", "&io.Reader", "io.Reader", "A,B", "A, B,", "\v", "\f", " ", "ß", "//", "/*", "*/", "@@", "@immutable@mutable"}),
		rapid.StringMatching(`[A-Za-z0-9_]{1,6}`),
		rapid.StringMatching(`[ -~]{0,5}`),
	)
	item := map[string]*rapid.Generator[string]{
		"constructor": rapid.OneOf(rapid.StringMatching(`[A-Za-z_][A-Za-z0-9_]{0,8}`), rapid.SampledFrom([]string{"New", "9x", "a-b", "é", "x.y", ""})),
		"ignore":      rapid.OneOf(rapid.SampledFrom([]string{"IMM01", "imm", "ALL", "Ctor02", "all", "x", "IMM_01", "IMM-01", ""}), rapid.StringMatching(`[A-Za-z0-9]{1,6}`)),
		"packageonly": rapid.OneOf(rapid.SampledFrom([]string{"a", "github.com/x/y-z", "a.b", "x_y/z", "a;b", "a b", "é/x", ""}), rapid.StringMatching(`[a-z0-9_/.-]{1,10}`)),
		"implements":  rapid.SampledFrom([]string{"Reader", "io.Reader", "&io.Reader", "&Reader", "& Reader", "io.", ".Reader", "io.Reader.X", "io..Reader", "&&R", "9io.Reader", "io.9R", "Réader", "io.Reader,x", ""}),
	}
	structured := rapid.Custom(func(rt *rapid.T) string {
		kw := rapid.SampledFrom(c15Keywords).Draw(rt, "kw")
		var b strings.Builder
		b.WriteString("//")
		b.WriteString(rapid.SampledFrom([]string{"", " ", "  ", "\t", " \t "}).Draw(rt, "lead"))
		b.WriteString(rapid.SampledFrom([]string{"@", "@", "@", "@", "@ ", "", "@@"}).Draw(rt, "at"))
		switch rapid.IntRange(0, 9).Draw(rt, "kwCase") {
		case 0:
			b.WriteString(strings.ToUpper(kw[:1]) + kw[1:])
		case 1:
			b.WriteString(kw + "s")
		default:
			b.WriteString(kw)
		}
		sep := rapid.SampledFrom([]string{" ", " ", " ", "\t", "  ", "", ":", "="}).Draw(rt, "sep")
		ig := item[kw]
		if ig == nil {
			if rapid.Bool().Draw(rt, "tail") {
				b.WriteString(sep + rapid.SampledFrom([]string{"because reasons", "@mutable", ", x", "x"}).Draw(rt, "tailText"))
			}
			return b.String()
		}
		b.WriteString(sep)
		if kw == "implements" {
			b.WriteString(ig.Draw(rt, "arg"))
		} else {
			n := rapid.IntRange(0, 4).Draw(rt, "nitems")
			for i := 0; i < n; i++ {
				if i > 0 {
					b.WriteString(rapid.SampledFrom([]string{",", ", ", " , ", " ,", ",\t", " ", ";", ",,"}).Draw(rt, "comma"))
				}
				b.WriteString(ig.Draw(rt, "item"))
			}
			b.WriteString(rapid.SampledFrom([]string{"", "", ",", " ,", ", "}).Draw(rt, "trailingComma"))
		}
		b.WriteString(rapid.SampledFrom([]string{"", "", " and some text", "\tx", "!", " , more"}).Draw(rt, "after"))
		return b.String()
	})
	rapid.Check(t, func(rt *rapid.T) {
		n := rapid.IntRange(0, 9).Draw(rt, "n")
		var b strings.Builder
		if rapid.IntRange(0, 9).Draw(rt, "structured") < 6 {
			b.WriteString(structured.Draw(rt, "structuredText"))
			n = 0
		} else {
			b.WriteString("//")
		}
		for i := 0; i < n; i++ {
			b.WriteString(piece.Draw(rt, "piece"))
		}
		s := strings.Map(func(r rune) rune {
			if r == '\n' || r == '\r' || r == 0 {
				return -1
			}
			return r
		}, b.String())
		why, un, ref, err := c15Compare(s)
		if err != nil {
			return
		}
		ev.Eval(id)
		if strings.HasPrefix(strings.TrimLeft(s[2:], " \t"), "@") {
			ev.NonTrivial(id, ev.Hash("rapid", s))
		}
		if un {
			ev.Class(id, "rapid: unspecified (not judged): "+ref.Open)
			return
		}
		if ref.Kind != "" {
			ev.Class(id, "rapid: recognised "+ref.Kind)
		}
		if why != "" {
			violation(rt, id, "c15", "rapid", len(s), c15Case{Text: s}, "comment %q: %s", s, why)
		}
	})
}

// ---- attachment sites -----------------------------------------------------------

type c15SiteCase struct {
	Source string   `json:"source"`
	Want   []string `json:"want"` // effective annotations, "kind target"
}

func c15SiteRun(c c15SiteCase) string {
	pass, err := c15Pass(c.Source)
	if err != nil {
		return ""
	}
	pa := annotations.ReadAllAnnotations(config.Empty(), pass)
	var got []string
	for _, a := range pa.ImplementsAnnotations {
		got = append(got, "implements "+a.OnType)
	}
	for _, a := range pa.ConstructorAnnotations {
		got = append(got, "constructor "+a.OnType)
	}
	for _, a := range pa.ImmutableAnnotations {
		got = append(got, "immutable "+a.OnType)
	}
	for _, a := range pa.TestonlyAnnotations {
		got = append(got, strings.Join(strings.Fields("testonly "+a.ReceiverType+" "+a.ObjectName), " "))
	}
	for _, a := range pa.PackageOnlyAnnotations {
		got = append(got, strings.Join(strings.Fields("packageonly "+a.ReceiverType+" "+a.ObjectName), " "))
	}
	for _, a := range pa.MutableAnnotations {
		got = append(got, "mutable "+a.OnType+"."+a.FieldName)
	}
	sort.Strings(got)
	want := append([]string{}, c.Want...)
	sort.Strings(want)
	if strings.Join(got, "|") != strings.Join(want, "|") {
		return fmt.Sprintf("effective annotations %v, expected %v", got, want)
	}
	return ""
}

func init() {
	replayers["c15site"] = func(data json.RawMessage) string {
		var c c15SiteCase
		if err := json.Unmarshal(data, &c); err != nil {
			return "bad replay: " + err.Error()
		}
		return c15SiteRun(c)
	}
}

func TestC15Sites(t *testing.T) {
	const id = "C15"
	annots := []struct{ line, kind string }{
		{"// @immutable", "immutable"}, {"// @constructor New", "constructor"}, {"// @testonly", "testonly"},
		{"// @packageonly a", "packageonly"}, {"// @implements Stringer", "implements"}, {"// @mutable", "mutable"},
	}
	rapid.Check(t, func(rt *rapid.T) {
		pick := func(label string) (string, string) {
			a := annots[rapid.IntRange(0, len(annots)-1).Draw(rt, label)]
			return a.line, a.kind
		}
		var want []string
		var b strings.Builder
		slot := func(site string, effective func(kind string) string) string {
			if rapid.IntRange(0, 9).Draw(rt, "use "+site) < 5 {
				return ""
			}
			line, kind := pick("annot " + site)
			if w := effective(kind); w != "" {
				want = append(want, w)
			}
			ev.Class(id, "site "+site+" carries "+kind)
			return line
		}
		never := func(string) string { return "" }
		typeAt := func(name string) func(string) string {
			return func(kind string) string {
				if kind == "mutable" {
					return ""
				}
				return kind + " " + name
			}
		}
		funcAt := func(name string) func(string) string {
			return func(kind string) string {
				if kind == "testonly" || kind == "packageonly" {
					return kind + " " + name
				}
				return ""
			}
		}
		w := func(format string, args ...interface{}) { fmt.Fprintf(&b, format, args...) }
		w("%s\npackage p\n\n", slot("package doc", never))
		w("%s\nimport \"fmt\"\n\nvar _ fmt.Stringer\n\n", slot("import doc", never))
		aImmutable := false
		w("%s\ntype A struct { %s\n", slot("type doc", func(kind string) string {
			if kind == "immutable" {
				aImmutable = true
			}
			return typeAt("A")(kind)
		}), slot("trailing on type line", never))
		w("\t%s\n\tX int %s\n", slot("field doc of plain (or, by its own doc, immutable) struct", func(kind string) string {
			if kind == "mutable" && aImmutable {
				return "mutable A.X"
			}
			return ""
		}), slot("trailing on field", never))
		w("\t%s\n\tfmt.Stringer\n}\n\n", slot("embedded field doc", never))
		// immutable struct with fields
		w("// @immutable\ntype B struct {\n\t%s\n\tY int\n\t%s\n\tfmt.Stringer\n}\n\n", slot("field doc of immutable struct", func(kind string) string {
			if kind == "mutable" {
				return "mutable B.Y"
			}
			return ""
		}), slot("embedded field doc of immutable struct", never))
		want = append(want, "immutable B")
		// one field declaration with several names: its doc comment documents every one of them
		if mn := slot("doc of a field declaration with several names", never); mn != "" {
			w("// @immutable\ntype B2 struct {\n\t%s\n\tP, Q, R int\n}\n\n", mn)
			want = append(want, "immutable B2")
			if mn == "// @mutable" {
				want = append(want, "mutable B2.P", "mutable B2.Q", "mutable B2.R")
			}
		}
		// detached
		if l := slot("detached from type by blank line", never); l != "" {
			w("%s\n\n", l)
		}
		w("type C int\n\n")
		// group: spec doc effective, group doc unspecified (not used)
		w("type (\n\t%s\n\tD int\n\n\tE int %s\n)\n\n", slot("spec doc in group", typeAt("D")), slot("trailing on spec", never))
		w("%s\nvar V int\n\n%s\nconst K = 1\n\n", slot("var doc", never), slot("const doc", never))
		w("%s\nfunc F() {\n\t%s\n\ttype L struct{ Z int }\n\t%s\n\tvar l L\n\t_ = l %s\n}\n\n", slot("func doc", funcAt("F")), slot("local type doc", never), slot("local var doc", never), slot("trailing in body", never))
		w("%s\nfunc (a A) M() {}\n\n", slot("method doc", func(kind string) string {
			if kind == "testonly" || kind == "packageonly" {
				return kind + " A M"
			}
			return ""
		}))
		if l := slot("block comment as type doc", never); l != "" {
			w("/* %s */\n", strings.TrimPrefix(l, "// "))
		}
		// interface method specs and embedded interfaces are not top-level declarations
		w("type H interface {\n\t%s\n\tReset() %s\n\t%s\n\tfmt.Stringer\n}\n\n", slot("interface method spec doc", never), slot("trailing on interface method spec", never), slot("embedded interface doc", never))
		w("type G int\n\n%s\n", slot("end of file", never))
		c := c15SiteCase{Source: b.String(), Want: want}
		ev.Eval(id)
		if _, err := c15Pass(c.Source); err != nil {
			rt.Fatalf("GENERATOR-BUG attachment skeleton does not parse: %v\n%s", err, c.Source)
		}
		if why := c15SiteRun(c); why != "" {
			violation(rt, id, "c15site", "sites", len(c.Source), c, "attachment: %s", why)
		}
		ev.NonTrivial(id, ev.Hash("sites", c.Source))
		if ev.SampleCount(id) < 5 && len(want) > 2 {
			ev.Sample(id, map[string]interface{}{"kind": "attachment sites", "source": c.Source, "effective": want})
		}
	})
}
