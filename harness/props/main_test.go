package props

import (
	"encoding/json"
	"fmt"
	"os"
	"path/filepath"
	"strconv"
	"strings"
	"testing"

	"verif/harness/ev"
)

func TestMain(m *testing.M) {
	// child go commands (go vet, go list, go/packages) must be the default
	// toolchain's: a parent `go test` of a switched toolchain prepends its own
	// bin directory to PATH and exports its GOROOT
	if g := os.Getenv("VERIF_GO"); g != "" {
		os.Setenv("PATH", filepath.Dir(g)+string(os.PathListSeparator)+os.Getenv("PATH"))
		os.Unsetenv("GOROOT")
		os.Unsetenv("GOTOOLDIR")
	}
	code := m.Run()
	ev.Flush()
	os.Exit(code)
}

// seed returns VERIF_SEED (default 1).
func seed() int64 {
	if s := os.Getenv("VERIF_SEED"); s != "" {
		if v, err := strconv.ParseInt(s, 10, 64); err == nil {
			return v
		}
	}
	return 1
}

// shard returns (index, count) of this process within the run.
func shard() (int, int) {
	i, _ := strconv.Atoi(os.Getenv("VERIF_SHARD"))
	n, _ := strconv.Atoi(os.Getenv("VERIF_SHARDS"))
	if n <= 0 {
		n = 1
	}
	return i, n
}

func thorough() bool { return ev.Thorough() }

// scale picks a count by tier.
func scale(quick, thoroughN int) int {
	if thorough() {
		return thoroughN
	}
	return quick
}

type fataler interface {
	Fatalf(format string, args ...any)
	Helper()
}

// Envelope is the on-disk form of a replay file.
type Envelope struct {
	Property string          `json:"property"`
	Kind     string          `json:"kind"`
	Summary  string          `json:"summary"`
	Data     json.RawMessage `json:"data"`
}

// replayers re-run one saved case with plain code (no generator, no rapid) and
// return "" if the property holds on it now, else a description.
var replayers = map[string]func(data json.RawMessage) string{}

// violation records a failing case (kept smallest per group) and fails.
func violation(t fataler, id, kind, group string, size int, data interface{}, format string, args ...any) {
	t.Helper()
	msg := fmt.Sprintf(format, args...)
	raw, _ := json.Marshal(data)
	ev.SaveViolation(id, group, size, firstLine(msg), Envelope{Property: id, Kind: kind, Summary: firstLine(msg), Data: raw})
	t.Fatalf("%s", msg)
}

func firstLine(s string) string {
	if i := strings.IndexByte(s, '\n'); i >= 0 {
		s = s[:i]
	}
	if len(s) > 300 {
		s = s[:300]
	}
	return s
}

func runReplayFile(path string) (string, error) {
	b, err := os.ReadFile(path)
	if err != nil {
		return "", err
	}
	var e Envelope
	if err := json.Unmarshal(b, &e); err != nil {
		return "", err
	}
	f := replayers[e.Kind]
	if f == nil {
		return "", fmt.Errorf("no replayer for kind %q", e.Kind)
	}
	return f(e.Data), nil
}

// TestReplay re-runs the file named by VERIF_REPLAY.
func TestReplay(t *testing.T) {
	p := os.Getenv("VERIF_REPLAY")
	if p == "" {
		t.Skip("no VERIF_REPLAY")
	}
	res, err := runReplayFile(p)
	if err != nil {
		fmt.Printf("REPLAY-ERROR %v\n", err)
		t.Fatalf("replay error: %v", err)
	}
	if res != "" {
		fmt.Printf("REPLAY-VIOLATION %s\n", firstLine(res))
		t.Fatalf("still violates: %s", res)
	}
	fmt.Printf("REPLAY-OK\n")
}

// ---- known findings ---------------------------------------------------------

type Finding struct {
	ID       string `json:"id"`
	Property string `json:"property"`
	Status   string `json:"status"` // known | fixed
	What     string `json:"what"`
	Witness  string `json:"witness"` // replay file relative to /verif
	Shape    string `json:"shape"`   // name of the generator exclusion, if any
	Commit   string `json:"commit,omitempty"`
}

func verifDir() string {
	if d := os.Getenv("VERIF_DIR"); d != "" {
		return d
	}
	return "/verif"
}

var findingsCache []Finding
var findingsLoaded bool

func findings() []Finding {
	if findingsLoaded {
		return findingsCache
	}
	findingsLoaded = true
	b, err := os.ReadFile(filepath.Join(verifDir(), "known_findings.json"))
	if err != nil {
		return nil
	}
	var doc struct {
		Findings []Finding `json:"findings"`
	}
	if json.Unmarshal(b, &doc) == nil {
		findingsCache = doc.Findings
	}
	return findingsCache
}

// shapeExcluded reports whether a generator must avoid the named shape because
// a recorded (status known) finding lists it.
func shapeExcluded(shape string) bool {
	for _, f := range findings() {
		if f.Status == "known" && f.Shape == shape {
			return true
		}
	}
	return false
}

// checkWitnesses runs the witness replays of property id: a known finding that
// still fails is announced (KNOWN-FINDING), a fixed one that fails again is a
// violation.
func checkWitnesses(t *testing.T, id string) {
	for _, f := range findings() {
		if f.Property != id || f.Witness == "" {
			continue
		}
		path := filepath.Join(verifDir(), f.Witness)
		res, err := runReplayFile(path)
		if err != nil {
			t.Fatalf("witness %s: %v", f.Witness, err)
		}
		ev.Class(id, "witness_replays")
		switch f.Status {
		case "known":
			if res != "" {
				ev.Known(id, f.What)
			}
		case "fixed":
			if res != "" {
				b, _ := os.ReadFile(path)
				var e Envelope
				json.Unmarshal(b, &e)
				ev.SaveViolation(id, "fixed-regressed-"+f.ID, 0, "fixed finding returned: "+f.What, e)
				t.Fatalf("fixed finding %s returned: %s", f.ID, res)
			}
		}
	}
}

// checkRegressions replays every committed file under /verif/replays/<id>-*.json
// that is not a known finding's witness; any failure is a violation.
func checkRegressions(t *testing.T, id string) {
	known := map[string]bool{}
	for _, f := range findings() {
		known[filepath.Base(f.Witness)] = true
	}
	ms, _ := filepath.Glob(filepath.Join(verifDir(), "replays", id+"-*.json"))
	for _, m := range ms {
		if known[filepath.Base(m)] {
			continue
		}
		res, err := runReplayFile(m)
		if err != nil {
			t.Fatalf("regression %s: %v", m, err)
		}
		ev.Class(id, "regression_replays")
		if res != "" {
			b, _ := os.ReadFile(m)
			var e Envelope
			json.Unmarshal(b, &e)
			ev.SaveViolation(id, "regression-"+filepath.Base(m), 0, res, e)
			t.Fatalf("regression %s: %s", m, res)
		}
	}
}
