package engine

import (
	"fmt"
	"go/ast"
	"go/parser"
	"go/token"
	"os"
	"path/filepath"
	"sort"
	"strings"

	"golang.org/x/tools/go/analysis/checker"
	"golang.org/x/tools/go/packages"

	"github.com/a14e/gogreement/src/analyzer"
	"github.com/a14e/gogreement/src/config"
)

// LoadReal loads real packages (with all dependencies, syntax and types) the
// way the standalone driver does, optionally with an overlay of modified files.
func LoadReal(dir string, env []string, overlay map[string][]byte, tests bool, patterns ...string) ([]*packages.Package, error) {
	cfg := &packages.Config{
		Mode:    packages.LoadAllSyntax | packages.NeedModule,
		Dir:     dir,
		Env:     baseEnv(env),
		Overlay: overlay,
		Tests:   tests,
	}
	return packages.Load(cfg, patterns...)
}

// AnalyzeReal runs all analyzers on loaded packages (in-process).
func AnalyzeReal(pkgs []*packages.Package, cfg Config, sequential bool) *Result {
	installHooks()
	runMu.Lock()
	defer runMu.Unlock()
	ep, ec := cfg.ExcludePaths, cfg.ExcludeChecks
	if ep == nil {
		ep = []string{}
	}
	if ec == nil {
		ec = []string{}
	}
	curCfg = config.New(cfg.ScanTests, ep, ec)
	panicMu.Lock()
	panicsSeen = nil
	panicMu.Unlock()
	res := &Result{}
	g, err := checker.Analyze(analyzer.AllAnalyzers(), pkgs, &checker.Options{Sequential: sequential})
	if err != nil {
		res.Errors = append(res.Errors, "analyze: "+err.Error())
		return res
	}
	seen := map[string]bool{}
	for act := range g.All() {
		if act.Err != nil {
			e := fmt.Sprintf("%s@%s: %v", act.Analyzer.Name, act.Package.ID, act.Err)
			if !seen[e] && !strings.Contains(e, "failed prerequisites") && !strings.Contains(e, "recovered panic") && !strings.Contains(e, "analysis skipped due to errors in package") {
				seen[e] = true
				res.Errors = append(res.Errors, e)
			}
			continue
		}
		if !act.IsRoot {
			continue
		}
		for _, d := range act.Diagnostics {
			posn := act.Package.Fset.Position(d.Pos)
			res.Diags = append(res.Diags, Diag{Pkg: act.Package.ID, Analyzer: act.Analyzer.Name, File: posn.Filename, Line: posn.Line, Col: posn.Column, Code: CodeOf(d.Message), Message: d.Message})
		}
	}
	panicMu.Lock()
	res.Panics = append(res.Panics, panicsSeen...)
	panicMu.Unlock()
	SortDiags(res.Diags)
	return res
}

// InjectionPoint is a place where an annotation comment line can be inserted.
type InjectionPoint struct {
	Line int    // 1-based line of the declaration / field; the comment goes directly above
	Kind string // type | func | method | field
}

// InjectionPoints finds the top-level type / func declarations and struct
// fields of a Go source file.
func InjectionPoints(filename string, src []byte) ([]InjectionPoint, error) {
	fset := token.NewFileSet()
	f, err := parser.ParseFile(fset, filename, src, parser.ParseComments)
	if err != nil {
		return nil, err
	}
	var pts []InjectionPoint
	line := func(p token.Pos) int { return fset.Position(p).Line }
	for _, d := range f.Decls {
		switch d := d.(type) {
		case *ast.FuncDecl:
			k := "func"
			if d.Recv != nil {
				k = "method"
			}
			pts = append(pts, InjectionPoint{line(d.Pos()), k})
		case *ast.GenDecl:
			if d.Tok != token.TYPE {
				continue
			}
			for _, sp := range d.Specs {
				ts := sp.(*ast.TypeSpec)
				at := ts.Pos()
				if !d.Lparen.IsValid() {
					at = d.Pos()
				}
				pts = append(pts, InjectionPoint{line(at), "type"})
				if st, ok := ts.Type.(*ast.StructType); ok && st.Fields != nil {
					for _, fl := range st.Fields.List {
						if line(fl.Pos()) != line(ts.Pos()) {
							pts = append(pts, InjectionPoint{line(fl.Pos()), "field"})
						}
					}
				}
			}
		}
	}
	sort.Slice(pts, func(i, j int) bool { return pts[i].Line < pts[j].Line })
	return pts, nil
}

// InsertLines inserts comment lines above the given 1-based lines.
func InsertLines(src []byte, at map[int][]string) []byte {
	lines := strings.Split(string(src), "\n")
	var out []string
	for i, l := range lines {
		if ins, ok := at[i+1]; ok {
			indent := l[:len(l)-len(strings.TrimLeft(l, " \t"))]
			for _, c := range ins {
				out = append(out, indent+c)
			}
		}
		out = append(out, l)
	}
	return []byte(strings.Join(out, "\n"))
}

// ReadPackageFiles returns absolute file names -> content for the Go files of a listed package.
func ReadPackageFiles(pi PkgInfo, withTests bool) map[string][]byte {
	out := map[string][]byte{}
	names := append([]string{}, pi.GoFiles...)
	if withTests {
		names = append(names, pi.TestGoFiles...)
	}
	for _, n := range names {
		fn := filepath.Join(pi.Dir, n)
		if b, err := os.ReadFile(fn); err == nil {
			out[fn] = b
		}
	}
	return out
}
