// Package engine runs the real gogreement analyzers over programs given as
// source text, through three drivers: in-process (x/tools checker.Analyze on
// packages built by this harness), the standalone binary, and go vet -vettool.
package engine

import (
	"fmt"
	"go/ast"
	"go/parser"
	"go/token"
	"go/types"
	"os"
	"path/filepath"
	"regexp"
	"runtime/debug"
	"sort"
	"strings"
	"sync"

	"golang.org/x/tools/go/analysis"
	"golang.org/x/tools/go/analysis/checker"
	"golang.org/x/tools/go/packages"

	"github.com/a14e/gogreement/src/analyzer"
	"github.com/a14e/gogreement/src/config"
)

// File is one source file of a package. Name is relative to the package dir.
type File struct {
	Name string
	Src  string
}

// Package is one directory of the program. Files may include in-package
// *_test.go files and external-test (package x_test) files.
type Package struct {
	Path  string // import path, e.g. vf.test/m/a
	Files []File
}

// Program is a set of packages in dependency order (a package only imports
// earlier ones).
type Program struct {
	Module string // module path, prefix of every Package.Path
	Pkgs   []*Package
}

// Dir returns the directory of the package relative to the module root.
func (p *Program) Dir(pkg *Package) string {
	if pkg.Path == p.Module {
		return "."
	}
	return strings.TrimPrefix(pkg.Path, p.Module+"/")
}

// Config mirrors config.Config.
type Config struct {
	ScanTests     bool
	ExcludePaths  []string
	ExcludeChecks []string
}

// DefaultConfig is the documented default.
func DefaultConfig() Config { return Config{ExcludePaths: []string{"testdata"}} }

// Diag is one normalised diagnostic.
type Diag struct {
	Pkg      string // package ID as the driver names it
	Analyzer string
	File     string // path relative to module root (slash separated)
	Line     int
	Col      int
	Code     string // first [CODE] in the message, "" if none
	Message  string
}

func (d Diag) Key() string { return fmt.Sprintf("%s:%d:%s", d.File, d.Line, d.Code) }
func (d Diag) String() string {
	return fmt.Sprintf("%s:%d:%d %s(%s)", d.File, d.Line, d.Col, d.Code, d.Analyzer)
}

// Result of one run.
type Result struct {
	Diags  []Diag
	Panics []string // recovered analyzer panics (in-process) or crash output (binary)
	Errors []string // action errors other than panics
}

var codeRe = regexp.MustCompile(`\[([A-Za-z]+[0-9]*)\]`)

// CodeOf extracts the first bracketed code of a message.
func CodeOf(msg string) string {
	m := codeRe.FindStringSubmatch(msg)
	if m == nil {
		return ""
	}
	return m[1]
}

// ---------------------------------------------------------------------------
// in-process driver

var (
	hookOnce   sync.Once
	curCfg     *config.Config
	panicMu    sync.Mutex
	panicsSeen []string
	origCfgRun func(*analysis.Pass) (interface{}, error)
	useRealCfg bool
)

func installHooks() {
	hookOnce.Do(func() {
		origCfgRun = analyzer.ConfigReader.Run
		analyzer.ConfigReader.Run = func(pass *analysis.Pass) (interface{}, error) {
			if useRealCfg {
				return origCfgRun(pass)
			}
			return curCfg, nil
		}
		for _, a := range analyzer.AllAnalyzers() {
			a := a
			if a == analyzer.ConfigReader {
				continue
			}
			orig := a.Run
			a.Run = func(pass *analysis.Pass) (res interface{}, err error) {
				defer func() {
					if r := recover(); r != nil {
						msg := fmt.Sprintf("panic in %s on %s: %v\n%s", a.Name, pass.Pkg.Path(), r, trimStack(debug.Stack()))
						panicMu.Lock()
						panicsSeen = append(panicsSeen, msg)
						panicMu.Unlock()
						err = fmt.Errorf("recovered panic: %v", r)
					}
				}()
				return orig(pass)
			}
		}
	})
}

func trimStack(b []byte) string {
	lines := strings.Split(string(b), "\n")
	var keep []string
	for _, l := range lines {
		if strings.Contains(l, "gogreement/src") && !strings.HasPrefix(strings.TrimSpace(l), "/") {
			l = strings.TrimSpace(l)
			if i := strings.Index(l, "("); i > 0 && strings.Contains(l[i:], "0x") {
				l = l[:i] // drop argument values: addresses differ between runs
			}
			keep = append(keep, l)
		}
		if len(keep) >= 6 {
			break
		}
	}
	return strings.Join(keep, "\n")
}

// Loaded is a program parsed and type-checked into go/packages values.
type Loaded struct {
	Root     string // absolute root directory used for file names
	Fset     *token.FileSet
	All      []*packages.Package          // every variant, dependency order
	ByID     map[string]*packages.Package // by ID
	Plain    map[string]*packages.Package // import path -> non-test variant
	TypeErrs []string

	unsafePkg *packages.Package
}

type progImporter struct {
	m map[string]*types.Package
}

func (pi *progImporter) Import(path string) (*types.Package, error) {
	if p, ok := pi.m[path]; ok {
		return p, nil
	}
	if path == "unsafe" {
		return types.Unsafe, nil
	}
	return nil, fmt.Errorf("package %q not in program", path)
}

var pkgClauseRe = regexp.MustCompile(`(?m)^package\s+(\w+)`)

// Load parses and type-checks prog the way go/packages with Tests=true does:
// a plain variant per package, a test variant "p [p.test]" when in-package
// test files exist, and "p_test [p.test]" for external test files.
// root is the absolute directory file names are placed under; nothing is
// written to disk here.
func Load(prog *Program, root string, goVersion string) (*Loaded, error) {
	fset := token.NewFileSet()
	ld := &Loaded{Root: root, Fset: fset, ByID: map[string]*packages.Package{}, Plain: map[string]*packages.Package{}}
	plainTypes := map[string]*types.Package{}
	sizes := types.SizesFor("gc", "amd64")

	mk := func(id, path string, files []File, dir string, imp types.Importer, impPkgs func(string) *packages.Package) (*packages.Package, error) {
		var syntax []*ast.File
		var names []string
		for _, f := range files {
			fn := filepath.Join(root, dir, f.Name)
			af, err := parser.ParseFile(fset, fn, f.Src, parser.AllErrors|parser.ParseComments)
			if err != nil {
				return nil, fmt.Errorf("parse %s: %v", fn, err)
			}
			syntax = append(syntax, af)
			names = append(names, fn)
		}
		info := &types.Info{
			Types:        map[ast.Expr]types.TypeAndValue{},
			Defs:         map[*ast.Ident]types.Object{},
			Uses:         map[*ast.Ident]types.Object{},
			Implicits:    map[ast.Node]types.Object{},
			Instances:    map[*ast.Ident]types.Instance{},
			Scopes:       map[ast.Node]*types.Scope{},
			Selections:   map[*ast.SelectorExpr]*types.Selection{},
			FileVersions: map[*ast.File]string{},
		}
		var terrs []string
		conf := types.Config{Importer: imp, Sizes: sizes, GoVersion: goVersion, Error: func(err error) { terrs = append(terrs, err.Error()) }}
		tp, _ := conf.Check(path, fset, syntax, info)
		if len(terrs) > 0 {
			ld.TypeErrs = append(ld.TypeErrs, terrs...)
		}
		pp := &packages.Package{
			ID: id, Name: tp.Name(), PkgPath: path, Fset: fset, Syntax: syntax,
			GoFiles: names, CompiledGoFiles: names,
			Types: tp, TypesInfo: info, TypesSizes: sizes, Imports: map[string]*packages.Package{},
			Module: &packages.Module{Path: prog.Module, GoVersion: strings.TrimPrefix(goVersion, "go")},
		}
		for _, ip := range tp.Imports() {
			if dep := impPkgs(ip.Path()); dep != nil {
				pp.Imports[ip.Path()] = dep
			} else if ip.Path() == "unsafe" {
				// go/packages lists the pseudo package like any dependency (it gets an action and an empty fact)
				if ld.unsafePkg == nil {
					ld.unsafePkg = &packages.Package{ID: "unsafe", Name: "unsafe", PkgPath: "unsafe", Fset: fset, Types: types.Unsafe,
						TypesInfo: &types.Info{}, TypesSizes: sizes, Imports: map[string]*packages.Package{}}
				}
				pp.Imports["unsafe"] = ld.unsafePkg
			}
		}
		ld.All = append(ld.All, pp)
		ld.ByID[id] = pp
		return pp, nil
	}

	for _, pkg := range prog.Pkgs {
		dir := prog.Dir(pkg)
		var reg, intest, xtest []File
		for _, f := range pkg.Files {
			if !strings.HasSuffix(f.Name, "_test.go") {
				reg = append(reg, f)
				continue
			}
			m := pkgClauseRe.FindStringSubmatch(f.Src)
			if m != nil && strings.HasSuffix(m[1], "_test") {
				xtest = append(xtest, f)
			} else {
				intest = append(intest, f)
			}
		}
		plainLookup := func(p string) *packages.Package { return ld.Plain[p] }
		pp, err := mk(pkg.Path, pkg.Path, reg, dir, &progImporter{plainTypes}, plainLookup)
		if err != nil {
			return nil, err
		}
		plainTypes[pkg.Path] = pp.Types
		ld.Plain[pkg.Path] = pp
		testID := fmt.Sprintf("%s [%s.test]", pkg.Path, pkg.Path)
		var variant *packages.Package
		if len(intest) > 0 {
			all := append(append([]File{}, reg...), intest...)
			variant, err = mk(testID, pkg.Path, all, dir, &progImporter{plainTypes}, plainLookup)
			if err != nil {
				return nil, err
			}
		}
		if len(xtest) > 0 {
			m2 := map[string]*types.Package{}
			for k, v := range plainTypes {
				m2[k] = v
			}
			self := pp
			if variant != nil {
				m2[pkg.Path] = variant.Types
				self = variant
			}
			lookup := func(p string) *packages.Package {
				if p == pkg.Path {
					return self
				}
				return ld.Plain[p]
			}
			xid := fmt.Sprintf("%s_test [%s.test]", pkg.Path, pkg.Path)
			if _, err := mk(xid, pkg.Path+"_test", xtest, dir, &progImporter{m2}, lookup); err != nil {
				return nil, err
			}
		}
	}
	return ld, nil
}

// Options for the in-process run.
type Options struct {
	Sequential  bool
	SanityCheck bool
	Roots       []string       // package IDs; nil = all variants
	RawConfig   *config.Config // if set, used instead of the Config argument (e.g. produced by the real flag/env parser)
}

// ParseConfig runs the repository's own flag-value parser on raw option
// strings (nil = leave the flag at its default).
func ParseConfig(scanTests *string, excludePaths *string, excludeChecks *string) (*config.Config, error) {
	fs := config.CreateFlagSet()
	set := func(name string, v *string) error {
		if v == nil {
			return nil
		}
		return fs.Set(name, *v)
	}
	if err := set("scan-tests", scanTests); err != nil {
		return nil, err
	}
	if err := set("exclude-paths", excludePaths); err != nil {
		return nil, err
	}
	if err := set("exclude-checks", excludeChecks); err != nil {
		return nil, err
	}
	return config.ParseFlagsFromFlagSet(fs), nil
}

var runMu sync.Mutex

// Analyze runs all gogreement analyzers in-process.
func Analyze(ld *Loaded, cfg Config, opt Options) *Result {
	installHooks()
	runMu.Lock()
	defer runMu.Unlock()
	ep := cfg.ExcludePaths
	if ep == nil {
		ep = []string{}
	}
	ec := cfg.ExcludeChecks
	if ec == nil {
		ec = []string{}
	}
	curCfg = config.New(cfg.ScanTests, ep, ec)
	if opt.RawConfig != nil {
		curCfg = opt.RawConfig
	}
	panicMu.Lock()
	panicsSeen = nil
	panicMu.Unlock()

	var roots []*packages.Package
	if opt.Roots == nil {
		roots = ld.All
	} else {
		for _, id := range opt.Roots {
			if p := ld.ByID[id]; p != nil {
				roots = append(roots, p)
			}
		}
	}
	res := &Result{}
	g, err := checker.Analyze(analyzer.AllAnalyzers(), roots, &checker.Options{Sequential: opt.Sequential, SanityCheck: opt.SanityCheck})
	if err != nil {
		res.Errors = append(res.Errors, "analyze: "+err.Error())
		return res
	}
	seenErr := map[string]bool{}
	for act := range g.All() {
		if act.Err != nil {
			e := fmt.Sprintf("%s@%s: %v", act.Analyzer.Name, act.Package.ID, act.Err)
			if !seenErr[e] && !strings.Contains(e, "failed prerequisites") && !strings.Contains(e, "recovered panic") {
				seenErr[e] = true
				res.Errors = append(res.Errors, e)
			}
			continue
		}
		if !act.IsRoot {
			continue
		}
		for _, d := range act.Diagnostics {
			posn := ld.Fset.Position(d.Pos)
			rel, _ := filepath.Rel(ld.Root, posn.Filename)
			res.Diags = append(res.Diags, Diag{
				Pkg: act.Package.ID, Analyzer: act.Analyzer.Name,
				File: filepath.ToSlash(rel), Line: posn.Line, Col: posn.Column,
				Code: CodeOf(d.Message), Message: d.Message,
			})
		}
	}
	panicMu.Lock()
	res.Panics = append(res.Panics, panicsSeen...)
	panicMu.Unlock()
	SortDiags(res.Diags)
	return res
}

// RunInproc = Load + Analyze with virtual file names under root.
func RunInproc(prog *Program, cfg Config, opt Options) (*Result, *Loaded, error) {
	ld, err := Load(prog, VirtualRoot, "go1.23")
	if err != nil {
		return nil, nil, err
	}
	return Analyze(ld, cfg, opt), ld, nil
}

// VirtualRoot is the directory prefix for in-memory programs; it must not
// contain any exclude-path token a generator may draw.
const VirtualRoot = "/vfroot/w"

func SortDiags(ds []Diag) {
	sort.Slice(ds, func(i, j int) bool {
		a, b := ds[i], ds[j]
		if a.File != b.File {
			return a.File < b.File
		}
		if a.Line != b.Line {
			return a.Line < b.Line
		}
		if a.Col != b.Col {
			return a.Col < b.Col
		}
		if a.Code != b.Code {
			return a.Code < b.Code
		}
		if a.Pkg != b.Pkg {
			return a.Pkg < b.Pkg
		}
		return a.Message < b.Message
	})
}

// KeySet returns the set of file:line:code keys (deduplicated across package
// variants), optionally restricted to codes with one of the given prefixes.
func KeySet(ds []Diag, prefixes ...string) map[string]bool {
	out := map[string]bool{}
	for _, d := range ds {
		if len(prefixes) > 0 {
			ok := false
			for _, p := range prefixes {
				if strings.HasPrefix(d.Code, p) {
					ok = true
				}
			}
			if !ok {
				continue
			}
		}
		out[d.Key()] = true
	}
	return out
}

func SortedKeys(m map[string]bool) []string {
	var ks []string
	for k := range m {
		ks = append(ks, k)
	}
	sort.Strings(ks)
	return ks
}

// WriteToDisk materialises the program under dir (with a go.mod).
func WriteToDisk(prog *Program, dir string) error {
	if err := os.MkdirAll(dir, 0o755); err != nil {
		return err
	}
	if err := os.WriteFile(filepath.Join(dir, "go.mod"), []byte("module "+prog.Module+"\n\ngo 1.23\n"), 0o644); err != nil {
		return err
	}
	for _, p := range prog.Pkgs {
		d := filepath.Join(dir, prog.Dir(p))
		for _, f := range p.Files {
			fn := filepath.Join(d, f.Name)
			if err := os.MkdirAll(filepath.Dir(fn), 0o755); err != nil {
				return err
			}
			if err := os.WriteFile(fn, []byte(f.Src), 0o644); err != nil {
				return err
			}
		}
	}
	return nil
}

// KeyCounts counts distinct diagnostics per file:line:code key. The same
// diagnostic reported for several package variants (same position and text)
// counts once; two diagnostics at different columns of a line count twice.
// CollapseVariants keeps, for every distinct diagnostic (position, code, message),
// as many copies as the package variant reporting it most often holds: the test
// variant of a package repeats the diagnostics of its regular files (one copy is
// kept), a checker that reports one finding twice within a variant is still visible.
func CollapseVariants(ds []Diag) []Diag {
	type k struct{ uk, pkg string }
	per := map[k]int{}
	first := map[string]Diag{}
	var order []string
	for _, d := range ds {
		uk := fmt.Sprintf("%s:%d:%d:%s:%s", d.File, d.Line, d.Col, d.Code, d.Message)
		if _, ok := first[uk]; !ok {
			first[uk] = d
			order = append(order, uk)
		}
		per[k{uk, d.Pkg}]++
	}
	var out []Diag
	for _, uk := range order {
		max := 0
		for kk, n := range per {
			if kk.uk == uk && n > max {
				max = n
			}
		}
		for i := 0; i < max; i++ {
			out = append(out, first[uk])
		}
	}
	return out
}

func KeyCounts(ds []Diag, prefixes ...string) map[string]int {
	out := map[string]int{}
	ds = CollapseVariants(ds)
	seen := map[string]bool{}
	_ = seen
	for _, d := range ds {
		if len(prefixes) > 0 {
			ok := false
			for _, p := range prefixes {
				if strings.HasPrefix(d.Code, p) {
					ok = true
				}
			}
			if !ok {
				continue
			}
		}
		out[d.Key()]++
	}
	return out
}
