package engine

import (
	"encoding/json"
	"fmt"
	"go/ast"
	"go/parser"
	"go/token"
	"os"
	"path/filepath"
	"regexp"
	"strings"
	"time"
)

// PkgInfo is the part of `go list -json` the corpora code needs.
type PkgInfo struct {
	ImportPath   string
	Dir          string
	Name         string
	GoFiles      []string
	TestGoFiles  []string
	XTestGoFiles []string
	Standard     bool
	Imports      []string
	SFiles       []string
	CgoFiles     []string
	Incomplete   bool
	Error        *struct{ Err string }
	DepsErrors   []*struct{ Err string }
}

// GoList runs `go list -e -json` in dir.
func GoList(dir string, env []string, patterns ...string) ([]PkgInfo, error) {
	goBin := os.Getenv("VERIF_GO")
	if goBin == "" {
		goBin = "go"
	}
	args := append([]string{"list", "-e", "-json=ImportPath,Dir,Name,GoFiles,TestGoFiles,XTestGoFiles,Standard,Imports,SFiles,CgoFiles,Incomplete,Error,DepsErrors"}, patterns...)
	pr := run(dir, 300*time.Second, env, goBin, args...)
	if pr.Exit != 0 && pr.Stdout == "" {
		return nil, fmt.Errorf("go list: exit %d: %s", pr.Exit, pr.Stderr)
	}
	var out []PkgInfo
	dec := json.NewDecoder(strings.NewReader(pr.Stdout))
	for dec.More() {
		var p PkgInfo
		if err := dec.Decode(&p); err != nil {
			return out, err
		}
		out = append(out, p)
	}
	return out, nil
}

var annotLikeRe = regexp.MustCompile(`^\s*//\s*@(implements|constructor|immutable|testonly|mutable|packageonly|ignore)\b`)

// PkgShape is what an independent scan of a package's sources finds.
type PkgShape struct {
	AnnotationLike int // comment lines that look like a gogreement annotation
	FieldWrites    int // assignments / inc-dec whose target is a selector
	CompositeLits  int
	MethodCalls    int // calls through a selector
	Files          int
	ParseErrors    int
}

// ScanPackage parses the given files of a package (an independent scan with
// go/parser, no gogreement code involved).
func ScanPackage(dir string, files []string) PkgShape {
	var sh PkgShape
	fset := token.NewFileSet()
	for _, fn := range files {
		f, err := parser.ParseFile(fset, filepath.Join(dir, fn), nil, parser.ParseComments)
		if err != nil {
			sh.ParseErrors++
			continue
		}
		sh.Files++
		for _, cg := range f.Comments {
			for _, c := range cg.List {
				for _, line := range strings.Split(c.Text, "\n") {
					if annotLikeRe.MatchString(line) {
						sh.AnnotationLike++
					}
				}
			}
		}
		ast.Inspect(f, func(n ast.Node) bool {
			switch n := n.(type) {
			case *ast.AssignStmt:
				for _, l := range n.Lhs {
					if _, ok := l.(*ast.SelectorExpr); ok {
						sh.FieldWrites++
					}
				}
			case *ast.IncDecStmt:
				if _, ok := n.X.(*ast.SelectorExpr); ok {
					sh.FieldWrites++
				}
			case *ast.CompositeLit:
				sh.CompositeLits++
			case *ast.CallExpr:
				if _, ok := n.Fun.(*ast.SelectorExpr); ok {
					sh.MethodCalls++
				}
			}
			return true
		})
	}
	return sh
}
