package engine

import (
	"bytes"
	"context"
	"encoding/json"
	"fmt"
	"os"
	"os/exec"
	"path/filepath"
	"sort"
	"strconv"
	"strings"
	"sync/atomic"
	"time"
)

// BinPath is the gogreement binary built by the check driver from /repo.
func BinPath() string { return os.Getenv("VERIF_GOGREEMENT") }

// RaceBinPath is a -race build of the same (may be empty).
func RaceBinPath() string { return os.Getenv("VERIF_GOGREEMENT_RACE") }

var scratchN atomic.Int64

// Scratch creates a fresh scratch directory whose path contains no token that
// a generated exclude-paths list can match ("testdata" in particular).
func Scratch() (string, error) {
	base := os.Getenv("VERIF_SCRATCH")
	if base == "" {
		base = filepath.Join(os.TempDir(), "vfscratch")
	}
	d := filepath.Join(base, fmt.Sprintf("p%d-%d", os.Getpid(), scratchN.Add(1)), "w")
	if err := os.MkdirAll(d, 0o755); err != nil {
		return "", err
	}
	return d, nil
}

// RmScratch removes a directory returned by Scratch (and its parent).
func RmScratch(d string) { os.RemoveAll(filepath.Dir(d)) }

// ProcResult is the raw outcome of an external driver run.
type ProcResult struct {
	Result
	Exit     int
	Stdout   string
	Stderr   string
	TimedOut bool
	Wall     time.Duration
}

// BaseEnv is the clean environment for child go commands (default toolchain, offline).
func BaseEnv(extra []string) []string { return baseEnv(extra) }

func baseEnv(extra []string) []string {
	var env []string
	for _, kv := range os.Environ() {
		if strings.HasPrefix(kv, "GOGREEMENT_") || strings.HasPrefix(kv, "GOFLAGS=") || strings.HasPrefix(kv, "GOMAXPROCS=") ||
			strings.HasPrefix(kv, "GOROOT=") || strings.HasPrefix(kv, "GOTOOLDIR=") || strings.HasPrefix(kv, "GOTOOLCHAIN=") {
			continue
		}
		env = append(env, kv)
	}
	env = append(env, "GOFLAGS=-mod=mod", "GOPROXY=off", "GOTOOLCHAIN=local", "GOWORK=off")
	// make sure the default go command comes first on PATH (a parent `go test`
	// of a switched toolchain prepends its own bin directory)
	if g := os.Getenv("VERIF_GO"); g != "" {
		for i, kv := range env {
			if strings.HasPrefix(kv, "PATH=") {
				env[i] = "PATH=" + filepath.Dir(g) + string(os.PathListSeparator) + strings.TrimPrefix(kv, "PATH=")
			}
		}
	}
	return append(env, extra...)
}

func run(dir string, timeout time.Duration, env []string, name string, args ...string) *ProcResult {
	ctx, cancel := context.WithTimeout(context.Background(), timeout)
	defer cancel()
	cmd := exec.CommandContext(ctx, name, args...)
	cmd.Dir = dir
	cmd.Env = baseEnv(env)
	var so, se bytes.Buffer
	cmd.Stdout, cmd.Stderr = &so, &se
	t0 := time.Now()
	err := cmd.Run()
	pr := &ProcResult{Stdout: so.String(), Stderr: se.String(), Wall: time.Since(t0)}
	if ctx.Err() == context.DeadlineExceeded {
		pr.TimedOut = true
	}
	if err != nil {
		if ee, ok := err.(*exec.ExitError); ok {
			pr.Exit = ee.ExitCode()
		} else {
			pr.Exit = -1
			pr.Errors = append(pr.Errors, err.Error())
		}
	}
	return pr
}

func crashText(s string) string {
	for _, marker := range []string{"panic:", "internal error", "fatal error:", "DATA RACE", "runtime error"} {
		if i := strings.Index(s, marker); i >= 0 {
			e := i + 600
			if e > len(s) {
				e = len(s)
			}
			return s[i:e]
		}
	}
	return ""
}

// RunBinary runs `gogreement <flags> -json <patterns>` in dir.
func RunBinary(dir string, flags []string, env []string, patterns ...string) *ProcResult {
	return RunBinaryWith(BinPath(), dir, flags, env, patterns...)
}

func RunBinaryWith(bin, dir string, flags []string, env []string, patterns ...string) *ProcResult {
	return runBinaryWith(bin, dir, 120*time.Second, flags, env, patterns...)
}

// RunBinaryTimeout is RunBinary with an explicit time limit.
func RunBinaryTimeout(dir string, limit time.Duration, flags []string, env []string, patterns ...string) *ProcResult {
	return runBinaryWith(BinPath(), dir, limit, flags, env, patterns...)
}

func runBinaryWith(bin, dir string, limit time.Duration, flags []string, env []string, patterns ...string) *ProcResult {
	args := append([]string{}, flags...)
	args = append(args, "-json")
	args = append(args, patterns...)
	pr := run(dir, limit, env, bin, args...)
	if c := crashText(pr.Stderr + pr.Stdout); c != "" {
		pr.Panics = append(pr.Panics, c)
	}
	parseJSONTree(pr, dir, pr.Stdout)
	return pr
}

// RunBinaryText runs the binary in its default text mode.
func RunBinaryText(dir string, flags []string, env []string, patterns ...string) *ProcResult {
	args := append([]string{}, flags...)
	args = append(args, patterns...)
	pr := run(dir, 120*time.Second, env, BinPath(), args...)
	if c := crashText(pr.Stderr + pr.Stdout); c != "" {
		pr.Panics = append(pr.Panics, c)
	}
	return pr
}

// RunVet runs `go vet -json -vettool=gogreement <flags> <patterns>` in dir.
func RunVet(dir string, flags []string, env []string, patterns ...string) *ProcResult {
	args := []string{"vet", "-json", "-vettool=" + BinPath()}
	args = append(args, flags...)
	args = append(args, patterns...)
	goBin := os.Getenv("VERIF_GO")
	if goBin == "" {
		goBin = "go"
	}
	pr := run(dir, 300*time.Second, env, goBin, args...)
	if c := crashText(pr.Stderr + pr.Stdout); c != "" {
		pr.Panics = append(pr.Panics, c)
	}
	// go vet -json prints "# pkg" lines and JSON objects on stderr.
	var js strings.Builder
	for _, l := range strings.Split(pr.Stderr, "\n") {
		if strings.HasPrefix(l, "#") {
			continue
		}
		js.WriteString(l)
		js.WriteString("\n")
	}
	parseJSONTree(pr, dir, js.String())
	return pr
}

func parseJSONTree(pr *ProcResult, dir, text string) {
	dec := json.NewDecoder(strings.NewReader(text))
	realDir, err := filepath.EvalSymlinks(dir)
	if err != nil {
		realDir = dir
	}
	for dec.More() {
		var tree map[string]map[string]json.RawMessage
		if err := dec.Decode(&tree); err != nil {
			if strings.TrimSpace(text) != "" {
				pr.Errors = append(pr.Errors, "json: "+err.Error())
			}
			return
		}
		for pkgID, byAn := range tree {
			for an, raw := range byAn {
				var diags []struct {
					Posn    string `json:"posn"`
					Message string `json:"message"`
				}
				if err := json.Unmarshal(raw, &diags); err != nil {
					var e struct {
						Error string `json:"error"`
					}
					if json.Unmarshal(raw, &e) == nil && e.Error != "" {
						pr.Errors = append(pr.Errors, fmt.Sprintf("%s@%s: %s", an, pkgID, e.Error))
					} else {
						pr.Errors = append(pr.Errors, fmt.Sprintf("%s@%s: unparsable %s", an, pkgID, string(raw)))
					}
					continue
				}
				for _, d := range diags {
					file, line, col := splitPosn(d.Posn)
					rel := file
					if r, err := filepath.Rel(realDir, file); err == nil && !strings.HasPrefix(r, "..") {
						rel = r
					} else if r, err := filepath.Rel(dir, file); err == nil && !strings.HasPrefix(r, "..") {
						rel = r
					}
					pr.Diags = append(pr.Diags, Diag{Pkg: pkgID, Analyzer: an, File: filepath.ToSlash(rel), Line: line, Col: col, Code: CodeOf(d.Message), Message: d.Message})
				}
			}
		}
	}
	SortDiags(pr.Diags)
}

func splitPosn(p string) (string, int, int) {
	parts := strings.Split(p, ":")
	if len(parts) < 3 {
		return p, 0, 0
	}
	col, _ := strconv.Atoi(parts[len(parts)-1])
	line, _ := strconv.Atoi(parts[len(parts)-2])
	return strings.Join(parts[:len(parts)-2], ":"), line, col
}

// PerPackageJSON canonicalises `-json` output per package ID, preserving the
// order of diagnostics inside each analyzer's array (so that a change of
// report order is visible) and making file names relative to dir.
func PerPackageJSON(stdout, dir string) (map[string]string, error) {
	out := map[string]string{}
	dec := json.NewDecoder(strings.NewReader(stdout))
	real, err := filepath.EvalSymlinks(dir)
	if err != nil {
		real = dir
	}
	for dec.More() {
		var tree map[string]map[string]json.RawMessage
		if err := dec.Decode(&tree); err != nil {
			return nil, err
		}
		for pkg, byAn := range tree {
			var names []string
			for an := range byAn {
				names = append(names, an)
			}
			sort.Strings(names)
			var b strings.Builder
			for _, an := range names {
				txt := strings.ReplaceAll(string(byAn[an]), real+"/", "")
				txt = strings.ReplaceAll(txt, dir+"/", "")
				fmt.Fprintf(&b, "%s=%s\n", an, txt)
			}
			out[pkg] += b.String()
		}
	}
	return out, nil
}
