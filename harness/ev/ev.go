// Package ev collects what a check run actually covered and writes it as a
// partial evidence file that the driver (/verif/check) merges across shards.
package ev

import (
	"crypto/sha1"
	"encoding/hex"
	"encoding/json"
	"fmt"
	"os"
	"path/filepath"
	"sort"
	"sync"
	"time"
)

type Partial struct {
	Property        string                 `json:"property_id"`
	Evaluations     int64                  `json:"evaluations"`
	Hashes          []string               `json:"nontrivial_hashes"`
	DistinctCounted int64                  `json:"distinct_counted"` // non-trivial cases distinct by construction (enumerations)
	Classes         map[string]int64       `json:"classes"`
	Samples         []interface{}          `json:"samples"`
	Extra           map[string]interface{} `json:"extra"`
	Violations      []Violation            `json:"violations"`
	Known           []string               `json:"known_findings_hit"`
	Inconclusive    []string               `json:"inconclusive"`
	Rule            string                 `json:"rule"`
	Exhaustive      *bool                  `json:"exhaustive,omitempty"`
	Assumptions     []string               `json:"assumptions"`
	WallS           float64                `json:"wall_s"`
}

type Violation struct {
	Replay  string `json:"replay"`
	Size    int    `json:"size"`
	Summary string `json:"summary"`
}

var (
	mu      sync.Mutex
	parts   = map[string]*col{}
	started = time.Now()
)

type col struct {
	p        Partial
	hashes   map[string]bool
	maxSamp  int
	viol     map[string]*Violation // by group key
	fallback interface{}
}

func get(id string) *col {
	c := parts[id]
	if c == nil {
		c = &col{hashes: map[string]bool{}, maxSamp: 4, viol: map[string]*Violation{}}
		c.p.Property = id
		c.p.Classes = map[string]int64{}
		c.p.Extra = map[string]interface{}{}
		parts[id] = c
	}
	return c
}

func Hash(parts ...string) string {
	h := sha1.New()
	for _, p := range parts {
		h.Write([]byte(p))
		h.Write([]byte{0})
	}
	return hex.EncodeToString(h.Sum(nil))[:16]
}

// Eval counts one property evaluation.
func Eval(id string) { mu.Lock(); get(id).p.Evaluations++; mu.Unlock() }

// EvalN counts n evaluations.
func EvalN(id string, n int64) { mu.Lock(); get(id).p.Evaluations += n; mu.Unlock() }

// NonTrivial records a distinct non-trivial case by hash.
func NonTrivial(id, hash string) { mu.Lock(); get(id).hashes[hash] = true; mu.Unlock() }

// DistinctN adds n non-trivial cases that are distinct by construction
// (exhaustive enumeration), where hashing each one would be wasteful.
func DistinctN(id string, n int64) { mu.Lock(); get(id).p.DistinctCounted += n; mu.Unlock() }

// Class counts an occurrence of a class label.
func Class(id, name string) { mu.Lock(); get(id).p.Classes[name]++; mu.Unlock() }

// ClassN adds n to a class label.
func ClassN(id, name string, n int64) { mu.Lock(); get(id).p.Classes[name] += n; mu.Unlock() }

// Sample keeps the first few samples.
func Sample(id string, v interface{}) {
	mu.Lock()
	c := get(id)
	if len(c.p.Samples) < c.maxSamp {
		c.p.Samples = append(c.p.Samples, v)
	}
	mu.Unlock()
}

// SampleFallback remembers a case that is written out as sample if no other
// sample was selected by the end of the run (so that evidence always shows at
// least one real case).
func SampleFallback(id string, v interface{}) {
	mu.Lock()
	get(id).fallback = v
	mu.Unlock()
}

func SampleCount(id string) int { mu.Lock(); defer mu.Unlock(); return len(get(id).p.Samples) }

func Rule(id, rule string) { mu.Lock(); get(id).p.Rule = rule; mu.Unlock() }
func Assume(id string, a ...string) {
	mu.Lock()
	get(id).p.Assumptions = append(get(id).p.Assumptions, a...)
	mu.Unlock()
}
func Set(id, k string, v interface{}) { mu.Lock(); get(id).p.Extra[k] = v; mu.Unlock() }
func Exhaustive(id string, b bool)    { mu.Lock(); get(id).p.Exhaustive = &b; mu.Unlock() }
func Known(id, what string) {
	mu.Lock()
	c := get(id)
	for _, k := range c.p.Known {
		if k == what {
			mu.Unlock()
			return
		}
	}
	c.p.Known = append(c.p.Known, what)
	mu.Unlock()
}
func Inconclusive(id, what string) {
	mu.Lock()
	get(id).p.Inconclusive = append(get(id).p.Inconclusive, what)
	mu.Unlock()
}

// ReplayDir is where failing cases are written by this process.
func ReplayDir() string {
	d := os.Getenv("VERIF_REPLAY_OUT")
	if d == "" {
		d = filepath.Join(os.TempDir(), "vf-replays")
	}
	os.MkdirAll(d, 0o755)
	return d
}

// SaveViolation writes the failing case (any JSON-able value) for property id.
// group distinguishes independent failures inside one process (e.g. the test
// name); within a group only the smallest case is kept, so that after rapid's
// shrinking the file holds the minimal reproduction.
func SaveViolation(id, group string, size int, summary string, replayCase interface{}) string {
	mu.Lock()
	defer mu.Unlock()
	c := get(id)
	old := c.viol[group]
	if old != nil && old.Size <= size {
		return old.Replay
	}
	b, err := json.MarshalIndent(replayCase, "", " ")
	if err != nil {
		b = []byte(fmt.Sprintf(`{"marshal_error": %q}`, err.Error()))
	}
	path := filepath.Join(ReplayDir(), fmt.Sprintf("%s-%s-%d.json", id, Hash(group), os.Getpid()))
	os.WriteFile(path, b, 0o644)
	c.viol[group] = &Violation{Replay: path, Size: size, Summary: summary}
	return path
}

// Flush writes all partials to $VERIF_EVID_PART_DIR/<id>-<pid>.json.
func Flush() {
	mu.Lock()
	defer mu.Unlock()
	dir := os.Getenv("VERIF_EVID_PART_DIR")
	if dir == "" {
		return
	}
	os.MkdirAll(dir, 0o755)
	for id, c := range parts {
		if len(c.p.Samples) == 0 && c.fallback != nil {
			c.p.Samples = append(c.p.Samples, c.fallback)
		}
		c.p.Hashes = c.p.Hashes[:0]
		for h := range c.hashes {
			c.p.Hashes = append(c.p.Hashes, h)
		}
		sort.Strings(c.p.Hashes)
		c.p.Violations = nil
		var gs []string
		for g := range c.viol {
			gs = append(gs, g)
		}
		sort.Strings(gs)
		for _, g := range gs {
			c.p.Violations = append(c.p.Violations, *c.viol[g])
		}
		c.p.WallS = time.Since(started).Seconds()
		b, _ := json.Marshal(c.p)
		os.WriteFile(filepath.Join(dir, fmt.Sprintf("%s-%d.json", id, os.Getpid())), b, 0o644)
	}
}

// Tier returns "quick" or "thorough".
func Tier() string {
	if os.Getenv("VERIF_TIER") == "thorough" {
		return "thorough"
	}
	return "quick"
}

func Thorough() bool { return Tier() == "thorough" }
